"""C19 - per-cell file splitting loses no record under handle limits and open failures (HandleLimiter typestate)."""
import ast

from ..core import rule
from ..index import AnalysisError, dotted, src, walk_no_nested, names_in
from ..cfg import CFG, const_env_step, eval3, UNK, OTHER
from ..domains import check_pred
from ..util import enclosing_loops, loop_targets, node_calls, own_expr, last_name
from .slots import HANDLELIM, FQHANDLE

CLS = 'HandleLimiter'
PRESENT, ABSENT, MAYBE = 'present', 'absent', 'maybe'


def clears_all(ctx, method):
    """Effect summary computed from the body: does HandleLimiter.<method> remove every key of self.openHandles?
    True when it pops, for every key it iterated over (directly or through a list filled in a loop over the keys)."""
    f = ctx.fn(HANDLELIM, f'{CLS}.{method}')
    txt = {src(n) for n in walk_no_nested(f)}
    # self.openHandles.clear() / = {}
    for n in walk_no_nested(f):
        if isinstance(n, ast.Call) and src(n.func) == 'self.openHandles.clear':
            return 'all'
        if isinstance(n, ast.Assign) and src(n.targets[0]) == 'self.openHandles' and isinstance(n.value, (ast.Dict,)) and not n.value.keys:
            return 'all'
    pops = [n for n in walk_no_nested(f) if isinstance(n, ast.Call) and src(n.func) == 'self.openHandles.pop']
    if not pops:
        return 'none'
    # key set alias: k = self.openHandles.keys(); for path in k: destroyed.append(path); for d in destroyed: pop(d)
    keyvars = {'self.openHandles.keys()', 'self.openHandles', 'list(self.openHandles.keys())', 'list(self.openHandles)'}
    for n in walk_no_nested(f):
        if isinstance(n, ast.Assign) and isinstance(n.targets[0], ast.Name) and src(n.value) in keyvars:
            keyvars.add(n.targets[0].id)
    full_lists = set()
    for loop in [l for l in walk_no_nested(f) if isinstance(l, ast.For)]:
        if src(loop.iter) in keyvars and isinstance(loop.target, ast.Name):
            # unconditional append of the key to a list
            for s in loop.body:
                if isinstance(s, ast.Expr) and isinstance(s.value, ast.Call) and isinstance(s.value.func, ast.Attribute) \
                        and s.value.func.attr == 'append' and s.value.args and src(s.value.args[0]) == loop.target.id:
                    full_lists.add(src(s.value.func.value))
            for s in loop.body:
                if isinstance(s, ast.Expr) and s.value in pops and src(s.value.args[0]) == loop.target.id:
                    return 'all'
    for loop in [l for l in walk_no_nested(f) if isinstance(l, ast.For)]:
        if src(loop.iter) in full_lists and isinstance(loop.target, ast.Name):
            for s in loop.body:
                if isinstance(s, ast.Expr) and s.value in pops and src(s.value.args[0]) == loop.target.id:
                    return 'all'
    return 'some'


def _is_entry(n, pathvar):
    return isinstance(n, ast.Subscript) and src(n.value) == 'self.openHandles' and src(n.slice) == pathvar


@rule('C19', 'C19-R1', 'key typestate: every use of self.openHandles[path] in HandleLimiter.write happens while the '
                       'entry is present, on every path including the open-failure / close-others / retry path')
def r1(ctx):
    _model_backed(ctx, 'C19-R1', _r1_structural)


def _r1_structural(ctx):
    ix = ctx.ix
    f = ctx.fn(HANDLELIM, f'{CLS}.write')
    pathvar = f.args.args[1].arg
    effects = {m: clears_all(ctx, m) for m in ('close', 'prune')}
    ctx.info(f'effect summaries: {effects}')

    def may_raise(kind, a):
        if kind in ('with_exit', 'except') or isinstance(a, ast.Raise):
            return set()
        tgt = a.test if kind == 'test' else a.iter if kind == 'for' else a
        for n in walk_no_nested(tgt):
            if isinstance(n, ast.Call):
                return {OTHER}
        return set()

    cfg = CFG(f.body, may_raise=may_raise, is_subclass=ix.is_subclass_name)
    violations = []

    def uses(node):
        e = own_expr(node)
        out = []
        if e is None:
            return out
        store_targets = set()
        if node.kind == 'stmt' and isinstance(node.ast, ast.Assign):
            for t in node.ast.targets:
                if _is_entry(t, pathvar):
                    store_targets.add(id(t))
        for n in walk_no_nested(e):
            if _is_entry(n, pathvar) and id(n) not in store_targets:
                out.append(n)
        return out

    alias_names = set()
    for a in walk_no_nested(f):
        if isinstance(a, ast.Assign) and (_is_entry(a.value, pathvar) or any(_is_entry(t, pathvar) for t in a.targets)):
            alias_names |= {t.id for t in a.targets if isinstance(t, ast.Name)}

    def alias_uses(node):
        e = own_expr(node)
        if e is None:
            return []
        return [n for n in walk_no_nested(e) if isinstance(n, ast.Subscript) and isinstance(n.value, ast.Name) and n.value.id in alias_names]

    def step(state, node, label):
        env, st, trail = state
        # aliases of the entry (`entry = self.openHandles[path]`): name -> still the registered dict?  kept in env under a reserved key
        fresh = env.get('<aliases>', frozenset())
        if node.kind == 'test' and label in ('true', 'false'):
            v = eval3(node.ast.test, env)
            if v is not UNK and bool(v) != (label == 'true'):
                return None
            t = node.ast.test
            if isinstance(t, ast.Compare) and len(t.ops) == 1 and src(t.left) == pathvar and src(t.comparators[0]) == 'self.openHandles':
                if isinstance(t.ops[0], ast.NotIn):
                    st2 = ABSENT if label == 'true' else PRESENT
                elif isinstance(t.ops[0], ast.In):
                    st2 = PRESENT if label == 'true' else ABSENT
                else:
                    st2 = st
                if st in (PRESENT, ABSENT) and st2 != st:
                    return None
                st = st2
        if label.startswith('exc:'):
            # the node raised: its effects did not (all) happen; uses inside it are judged only on normal completion
            return (env, st, trail)
        for u in uses(node):
            if st != PRESENT:
                violations.append((node, st, trail + (repr(node),)))
        for u in alias_uses(node):
            if u.value.id not in fresh:
                violations.append((node, f'stale alias `{u.value.id}`', trail + (repr(node),)))
        env = const_env_step(env, node)
        e = own_expr(node)
        if e is not None:
            if node.kind == 'stmt' and isinstance(node.ast, ast.Assign):
                tg = node.ast.targets
                rebinds = any(_is_entry(t, pathvar) for t in tg)
                names_t = {t.id for t in tg if isinstance(t, ast.Name) and t.id in alias_names}
                if rebinds:
                    st = PRESENT
                    fresh = frozenset(names_t)             # the entry is a new object: only names bound in this very statement denote it
                elif names_t and _is_entry(node.ast.value, pathvar):
                    fresh = fresh | names_t
                elif names_t:
                    fresh = fresh - names_t
            for c in node_calls(node):
                nm = src(c.func)
                if nm == 'self.close':
                    st = ABSENT if effects['close'] == 'all' else (MAYBE if effects['close'] == 'some' else st)
                elif nm == 'self.prune':
                    st = MAYBE if effects['prune'] != 'none' else st
                elif nm == 'self.openHandles.pop' and c.args and src(c.args[0]) == pathvar:
                    st = ABSENT
                elif nm in ('self.openHandles.clear',):
                    st = ABSENT
            if st != PRESENT:
                fresh = frozenset()                     # whatever the aliases point to is no longer (known to be) the registered entry
        env = dict(env)
        env['<aliases>'] = fresh
        return (env, st, trail + (repr(node) + (f' [{st}]' if st != PRESENT else ''),))

    handler_states = set()
    _orig_step = step

    def step(state, node, label, _s=_orig_step):
        if node.kind == 'except':
            handler_states.add(state[1])
        return _s(state, node, label)

    paths = cfg.paths(state0=({}, MAYBE, ()), step=step, loop_visits=3, max_visits=2, max_paths=400000)
    ctx.counters['paths_enumerated'] += len(paths)
    ctx.handler_states = handler_states
    uniq = {}
    for node, st, trail in violations:
        uniq.setdefault((node.lineno, st), trail)
    n_uses = sum(1 for n in walk_no_nested(f) if _is_entry(n, pathvar)) + sum(1 for n in walk_no_nested(f) if isinstance(n, ast.Subscript) and isinstance(n.value, ast.Name) and n.value.id in alias_names)
    ctx.need('C19-R1', n_uses, 4, 'uses of self.openHandles[path]')
    if not uniq:
        ctx.emit('C19-R1', True, HANDLELIM, f, f'{len(paths)} paths (retry loop unrolled twice, exception edge from every call): all {n_uses} uses of '
                 f'self.openHandles[{pathvar}] occur with the entry present', key='entry-present-on-use')
    for (line, st), trail in sorted(uniq.items()):
        node = [n for n, s, t in violations if n.lineno == line][0]
        ctx.emit('C19-R1', False, HANDLELIM, node.ast, (f'the entry is written through a {st}: the dictionary it names was dropped from / replaced in self.openHandles (close-all-and-retry), so the '
                 f'handle and the record land in an orphaned entry that is never closed' if str(st).startswith('stale alias') else
                 f'self.openHandles[{pathvar}] is used while the entry is {st} (after close() dropped every entry / before it was created): KeyError on the retry path'),
                 key='entry-present-on-use', witness={'path': ' ; '.join(trail[-14:])},
                 what='HandleLimiter.write uses self.openHandles[path] after close() removed it (retry after open failure raises KeyError)')
    ctx.exhaustive['C19-R1'] = False


@rule('C19', 'C19-R2', 'a truncating open mode is used only for a path never opened before and is followed by '
                       'seen.add(path); every other open appends; the record is written exactly once per call')
def r2(ctx):
    _model_backed(ctx, 'C19-R2', _r2_structural)


def _r2_structural(ctx):
    f = ctx.fn(HANDLELIM, f'{CLS}.write')
    pathvar = f.args.args[1].arg
    tries = [t for t in walk_no_nested(f) if isinstance(t, ast.Try)]
    if len(tries) != 1:
        raise AnalysisError('HandleLimiter.write: expected exactly one try block around the open')
    # decision procedure: for every valuation of (path written before, forceAppend, gzip method) the non-raising way through the try
    # statement (body, then its else clause) performs exactly one open of the path, truncating iff the path was not written before and
    # append is not forced, remembers a truncated path afterwards, and uses gzip / binary mode iff the gzip method is selected
    import itertools
    force = f.args.args[4].arg if len(f.args.args) > 4 else 'forceAppend'
    meth = f.args.args[3].arg if len(f.args.args) > 3 else 'method'
    cfg = CFG([tries[0]], exceptions=False)
    clsdef = ctx.ix.cls(HANDLELIM, CLS)
    class_tables = {t_.id: s_.value for s_ in clsdef.body if isinstance(s_, ast.Assign) and isinstance(s_.value, ast.Dict) for t_ in s_.targets if isinstance(t_, ast.Name)}
    n = 0
    bad = []
    for S, FA, M in itertools.product((True, False), repeat=3):
        def atoms(e, S=S, FA=FA, M=M):
            t = src(e)
            if t == f'{pathvar} in self.seen':
                return S
            if t == f'{pathvar} not in self.seen':
                return not S
            if t == force:
                return FA
            if t == f'{meth} == 1':
                return M
            if t in (f'{meth} == 0', f'{meth} != 1'):
                return not M
            if isinstance(e, ast.Call) and isinstance(e.func, ast.Name) and e.func.id == 'bool' and len(e.args) == 1:
                return eval3(e.args[0], {}, atoms)
            return UNK

        def step(state, node, label, atoms=atoms):
            cenv, ev = state
            if node.kind == 'test' and label in ('true', 'false') and isinstance(node.ast, (ast.If, ast.While)):
                v = eval3(node.ast.test, cenv, atoms)
                if v is not UNK and bool(v) != (label == 'true'):
                    return None
            for c in node_calls(node):
                d = dotted(c.func) or ''
                if d in ('open', 'gzip.open') and len(c.args) >= 2:
                    m_ = c.args[1]
                    if class_tables and any(isinstance(x, ast.Attribute) and isinstance(x.value, ast.Name) and x.value.id in ('self', CLS) and x.attr in class_tables for x in ast.walk(m_)):
                        # a mode table kept as a class constant: `self._OPEN_MODES[gzipped, append]`
                        import copy as _copy

                        class _T(ast.NodeTransformer):
                            def visit_Attribute(self, node):
                                if isinstance(node.value, ast.Name) and node.value.id in ('self', CLS) and node.attr in class_tables:
                                    return _copy.deepcopy(class_tables[node.attr])
                                return self.generic_visit(node)
                        v_ = eval3(_T().visit(_copy.deepcopy(m_)), cenv, atoms)
                        if isinstance(v_, str):
                            m_ = ast.Constant(value=v_)
                    for _ in range(3):
                        if isinstance(m_, ast.IfExp):
                            v = eval3(m_.test, cenv, atoms)
                            m_ = m_ if v is UNK else (m_.body if v else m_.orelse)
                        elif isinstance(m_, ast.Name) and isinstance(cenv.get(m_.id), str):
                            m_ = ast.Constant(value=cenv[m_.id])
                    ev = ev + (('open', d, m_.value if isinstance(m_, ast.Constant) else None, src(c.args[0])),)
                if src(c.func) == 'self.seen.add' and c.args and src(c.args[0]) == pathvar:
                    ev = ev + (('seen.add',),)
            if node.kind == 'stmt' and isinstance(node.ast, ast.Assign) and len(node.ast.targets) == 1 and isinstance(node.ast.targets[0], ast.Name):
                cenv = dict(cenv)
                val = node.ast.value
                if isinstance(val, ast.IfExp):
                    v = eval3(val.test, cenv, atoms)
                    val = val if v is UNK else (val.body if v else val.orelse)
                cenv[node.ast.targets[0].id] = val.value if isinstance(val, ast.Constant) else eval3(val, cenv, atoms)
            return (cenv, ev)
        for p, (cenv, ev) in cfg.paths(state0=({}, ()), step=step):
            if cfg.nodes[p[-1][0]].info not in ('fall', 'break'):
                continue
            n += 1
            case = f'(written before={S}, forceAppend={FA}, gzip={M})'
            opens = [e for e in ev if e[0] == 'open']
            if len(opens) != 1:
                bad.append(f'{len(opens)} opens on a path {case}')
                continue
            _, d, mode, target = opens[0]
            if target != pathvar:
                bad.append(f'opens {target} instead of {pathvar}')
            if mode is None:
                bad.append(f'open mode not decided {case}')
                continue
            want_trunc = not (S or FA)
            if mode.startswith('w') != want_trunc or mode[:1] not in ('w', 'a'):
                bad.append(f'truncating mode {mode!r} used although the path may have been written before {case}' if mode.startswith('w') else f'append mode {mode!r} on the first-open branch {case}' if mode.startswith('a') else f'unexpected mode {mode!r}')
            if mode.startswith('w') and ('seen.add',) not in ev[ev.index(opens[0]):]:
                bad.append(f'truncating open {mode!r} is not followed by self.seen.add({pathvar})')
            if ('b' in mode) != (d == 'gzip.open') or (d == 'gzip.open') != M:
                bad.append(f'{d} with mode {mode!r} {case}')
    ctx.emit('C19-R2', not bad and n >= 8, HANDLELIM, tries[0], f'{n} open paths over 8 valuations: ' + ('truncate only on first open (then remembered), append otherwise' if not bad else '; '.join(sorted(set(bad)))),
             key='truncate-once')
    # method flag selects gzip consistently: method == 1 -> gzip.open
    # write-once: after the open section every path performs exactly one handle.write
    after = f.body[-1:]
    idx = None
    for k, s in enumerate(f.body):
        if isinstance(s, ast.If) and f'{pathvar} not in self.openHandles' in src(s.test):
            idx = k
    if idx is None:
        raise AnalysisError('HandleLimiter.write: `if path not in self.openHandles` not found')
    cfg2 = CFG(f.body[idx + 1:], exceptions=False)
    # the record, or a local built from it (`payload = string if text else bytes(string, ..)`)
    carriers = {f.args.args[2].arg}
    for _ in range(3):
        for s_ in walk_no_nested(f):
            if isinstance(s_, ast.Assign) and len(s_.targets) == 1 and isinstance(s_.targets[0], ast.Name) and (names_in(s_.value) & carriers):
                carriers.add(s_.targets[0].id)
    counts = set()
    for p, _ in cfg2.paths():
        if cfg2.nodes[p[-1][0]].info != 'fall':
            continue
        k = 0
        for nid, _l in p:
            for c in node_calls(cfg2.nodes[nid]):
                if isinstance(c.func, ast.Attribute) and c.func.attr == 'write' and ("['handle']" in src(c.func.value) or 'handle' in src(c.func.value).lower()) and names_in(c) & carriers:
                    k += 1
        counts.add(k)
    ctx.emit('C19-R2', counts == {1}, HANDLELIM, f, f'after the handle is available every path writes the record {sorted(counts)} time(s)', key='write-once')
    lw = [s for s in walk_no_nested(f) if isinstance(s, ast.Assign) and "['lastw']" in src(s.targets[0])]
    ctx.emit('C19-R2', len(lw) == 1, HANDLELIM, f, 'last-write time is recorded for pruning', key='lastw', nontrivial=False)


@rule('C19', 'C19-R2b', 'the set of already-written paths only grows: nothing but the constructor resets or shrinks self.seen '
                        '(otherwise a later re-open truncates a file that already holds records)')
def r2b(ctx):
    _model_backed(ctx, 'C19-R2b', _r2b_structural)


def _r2b_structural(ctx):
    cls = ctx.ix.cls(HANDLELIM, CLS)
    bad = []
    for m in cls.body:
        if not isinstance(m, ast.FunctionDef) or m.name == '__init__':
            continue
        for n in walk_no_nested(m):
            if isinstance(n, (ast.Assign, ast.AugAssign, ast.AnnAssign)):
                tg = n.targets if isinstance(n, ast.Assign) else [n.target]
                for t in tg:
                    for tt in (t.elts if isinstance(t, (ast.Tuple, ast.List)) else [t]):
                        if src(tt) == 'self.seen':
                            bad.append((m.name, n))
            if isinstance(n, ast.Delete) and any(src(t).startswith('self.seen') for t in n.targets):
                bad.append((m.name, n))
            if isinstance(n, ast.Call) and isinstance(n.func, ast.Attribute) and src(n.func.value) == 'self.seen' and \
                    n.func.attr in ('clear', 'remove', 'discard', 'pop', 'difference_update', 'intersection_update', 'symmetric_difference_update'):
                bad.append((m.name, n))
    for name, n in bad:
        ctx.emit('C19-R2b', False, HANDLELIM, n, f'{CLS}.{name} resets/shrinks self.seen (`{src(n)[:60]}`): files written before are truncated when re-opened',
                 key=f'seen-monotone:{name}', what=f'{CLS}.{name} forgets which files were already written (self.seen reset)')
    if not bad:
        ctx.emit('C19-R2b', True, HANDLELIM, cls, 'self.seen is only ever added to outside the constructor', key='seen-monotone')
    # ... and belongs to the writer: it is created in the constructor, not shared by all limiters as a class attribute (a second writer in
    # the same process would append to the files of the first instead of truncating its own)
    init = [m for m in cls.body if isinstance(m, ast.FunctionDef) and m.name == '__init__']
    per_instance = bool(init) and any(isinstance(n, ast.Assign) and any(src(t) == 'self.seen' for t in n.targets) and isinstance(n.value, ast.Call) and src(n.value) == 'set()'
                                      for n in walk_no_nested(init[0]))
    class_level = [n for n in cls.body if isinstance(n, (ast.Assign, ast.AnnAssign)) and any(src(t) == 'seen' for t in (n.targets if isinstance(n, ast.Assign) else [n.target]))]
    ctx.emit('C19-R2b', per_instance and not class_level, HANDLELIM, class_level[0] if class_level else (init[0] if init else cls),
             'the set of written paths is created per limiter in the constructor' if per_instance and not class_level else
             'the set of written paths is a class attribute / not created in the constructor: all limiters of a process share it', key='seen-per-instance',
             what='HandleLimiter.seen is shared between instances')


@rule('C19', 'C19-R3', 'the open-failure arm raises only when no other handle is open (len(openHandles) <= 1, the '
                       'entry of the path itself), and otherwise closes the other handles and retries')
def r3(ctx):
    _model_backed(ctx, 'C19-R3', _r3_structural)


def _r3_structural(ctx):
    f = ctx.fn(HANDLELIM, f'{CLS}.write')
    hs = [h for h in walk_no_nested(f) if isinstance(h, ast.ExceptHandler)]
    if len(hs) != 1:
        raise AnalysisError('HandleLimiter.write: expected one except arm')
    h = hs[0]
    cfg = CFG(h.body, exceptions=False)
    res = []
    for p, _ in cfg.paths():
        term = cfg.nodes[p[-1][0]].info
        conds = []
        closed = False
        for nid, label in p:
            nn = cfg.nodes[nid]
            if nn.kind == 'test':
                conds.append((nn.ast.test, label == 'true'))
            for c in node_calls(nn):
                if src(c.func) == 'self.close':
                    closed = True
        res.append((term, conds, closed))
    ok = True
    why = []
    n_raise = 0
    # is the entry of the path being opened counted in len(self.openHandles) when the failure arm runs?
    if not hasattr(ctx, 'handler_states'):
        r1(ctx)
        ctx.obligations[:] = [o for o in ctx.obligations if o.rule != 'C19-R1' or True]
    hs = getattr(ctx, 'handler_states', set()) or {PRESENT}
    offsets = sorted({1 if st_ == PRESENT else 0 for st_ in hs} if MAYBE not in hs else {0, 1})
    # types caught: must cover every failure of open()
    hnames = []
    if h.type is None:
        hnames = [None]
    else:
        for t in (h.type.elts if isinstance(h.type, ast.Tuple) else [h.type]):
            hnames.append(dotted(t))
    if not any(x in (None, 'Exception', 'BaseException', 'OSError', 'IOError', 'EnvironmentError') for x in hnames):
        ok = False
        why.append(f'failure arm only catches {hnames}: other open failures are not retried')

    def name_atom(x):
        return 'n' if src(x) == 'len(self.openHandles)' else None
    for term, conds, closed in res:
        if term == 'raise':
            n_raise += 1
            if closed:
                ok = False
                why.append('raises after closing the other handles without retrying')
    raise_paths = [conds for term, conds, closed in res if term == 'raise']
    if raise_paths:
        # P_raise = OR over raise paths of AND(test == polarity)
        def mk(conds):
            parts = [t if pol else ast.UnaryOp(op=ast.Not(), operand=t) for t, pol in conds]
            if not parts:
                return ast.Constant(True)
            return parts[0] if len(parts) == 1 else ast.BoolOp(op=ast.And(), values=parts)
        disj = [mk(c) for c in raise_paths]
        pred = disj[0] if len(disj) == 1 else ast.BoolOp(op=ast.Or(), values=disj)
        for off in offsets:
            try:
                ncase, bad = check_pred(pred, lambda e, off=off: e['n'] - off <= 0, symbols=None,
                                        constraint=lambda e, off=off: e.get('n', off) >= off, atom_name=name_atom, extra_consts=(0, 1, 2, 3))
                ctx.counters['abstract_cases'] += ncase
                if bad:
                    ok = False
                    c = bad[0]['case']
                    others = c.get('n', off) - off
                    why.append(f'with the entry of the path {"" if off else "not "}counted in openHandles: case {c} ({others} other handle(s) open): '
                               + ('raises although other handles could be closed' if bad[0]['code'] else 'does not raise although no other handle is open (retries forever)'))
            except AnalysisError as ex:
                ok = False
                why.append(f'guard of raise not interpretable: {src(pred)[:100]}')
    for term, conds, closed in res:
        if term != 'raise' and not closed:
            ok = False
            why.append('a non-raising failure path does not close the other handles (retry loops forever / loses the record)')
    if n_raise == 0:
        ok = False
        why.append('the failure arm never raises: a permanent failure loops forever')
    ctx.emit('C19-R3', ok, HANDLELIM, h, 'open-failure arm: ' + ('raises iff len(openHandles) <= 1, otherwise close() and retry' if ok else '; '.join(why)), key='raise-only-when-alone')
    # the retry flag is cleared on every normal path through the try body, after the open
    tr = [t for t in walk_no_nested(f) if isinstance(t, ast.Try)][0]
    wl = [w for w in walk_no_nested(f) if isinstance(w, ast.While)]
    # two spellings of the retry loop: `while flag:` with the flag cleared after the open, or `while True:` left by `break` after the open
    # ... or `while not done:` with the flag SET after the open
    neg = len(wl) == 1 and isinstance(wl[0].test, ast.UnaryOp) and isinstance(wl[0].test.op, ast.Not) and isinstance(wl[0].test.operand, ast.Name)
    okw = len(wl) == 1 and (isinstance(wl[0].test, ast.Name) or neg or (isinstance(wl[0].test, ast.Constant) and wl[0].test.value is True))
    okf = False
    if okw:
        flag = wl[0].test.id if isinstance(wl[0].test, ast.Name) else (wl[0].test.operand.id if neg else None)
        leave_value = 'True' if neg else 'False'
        # the statements of the try's else-branch run right after a body that completed: they belong to the normal path
        tcfg = CFG(list(tr.body) + list(tr.orelse), exceptions=False)
        okf = True
        for p, _ in tcfg.paths():
            term = tcfg.nodes[p[-1][0]].info
            if term not in ('fall', 'break'):
                continue
            last_open = last_clear = -1
            for k, (nid, _l) in enumerate(p):
                nn = tcfg.nodes[nid]
                if any((dotted(c.func) or '') in ('open', 'gzip.open') for c in node_calls(nn)):
                    last_open = k
                if flag is not None and nn.kind == 'stmt' and isinstance(nn.ast, ast.Assign) and src(nn.ast) == f'{flag} = {leave_value}':
                    last_clear = k
            if flag is None:
                last_clear = len(p) if term == 'break' else -1
            if not (last_open >= 0 and last_clear > last_open):
                okf = False
    ctx.emit('C19-R3', okf and okw, HANDLELIM, tr, 'retry loop runs until the open succeeded (left only after the open on every normal path of the try body)', key='retry-flag', nontrivial=False)


@rule('C19', 'C19-R4', 'prune() and close() close a handle before they drop its entry; prune keeps the most recently written handles')
def r4(ctx):
    _model_backed(ctx, 'C19-R4', _r4_structural)


def _r4_structural(ctx):
    for m in ('prune', 'close'):
        f = ctx.fn(HANDLELIM, f'{CLS}.{m}')
        cfg = CFG(f.body, exceptions=False)
        n_drop = 0
        bad = False
        for p, _ in cfg.paths(loop_visits=2):
            closed = False
            for nid, label in p:
                nn = cfg.nodes[nid]
                if nn.kind == 'test' and ((label == 'false' and "'handle' in" in src(nn.ast.test)) or (label == 'true' and "'handle' not in" in src(nn.ast.test))):
                    closed = True      # the entry holds no handle: nothing to close
                if nn.kind == 'for' and label == 'false' and any(
                        isinstance(c, ast.Call) and isinstance(c.func, ast.Attribute) and c.func.attr == 'close' and 'handle' in src(c.func.value)
                        for c in walk_no_nested(nn.ast)):
                    closed = True      # the closing loop has been traversed for all entries
                for c in node_calls(nn):
                    if isinstance(c.func, ast.Attribute) and c.func.attr == 'close' and ("['handle']" in src(c.func.value) or 'handle' in src(c.func.value)):
                        closed = True
                    if src(c.func) in ('self.openHandles.pop', 'self.openHandles.clear', 'self.openHandles.popitem'):
                        n_drop += 1
                        # dropping an entry that holds a handle without having closed on this path
                        if not closed:
                            bad = True
                if nn.kind == 'stmt' and isinstance(nn.ast, ast.Delete) and any(isinstance(t_, ast.Subscript) and src(t_.value) == 'self.openHandles' for t_ in nn.ast.targets):
                    n_drop += 1
                    if not closed:
                        bad = True
                if nn.kind == 'stmt' and isinstance(nn.ast, ast.Assign) and src(nn.ast.targets[0]) == 'self.openHandles':
                    n_drop += 1
                    if not closed and any(isinstance(x, ast.For) for x in walk_no_nested(f)):
                        bad = True
        has_close = any(isinstance(c, ast.Call) and isinstance(c.func, ast.Attribute) and c.func.attr == 'close' and 'handle' in src(c.func.value) for c in walk_no_nested(f))
        ok = n_drop > 0 and has_close and not bad
        ctx.emit('C19-R4', ok, HANDLELIM, f, f'{m}(): ' + ('every dropped entry was closed first' if ok else 'an entry is dropped without closing its handle (buffered records are lost)'),
                 key=f'{m}:close-before-pop')
    f = ctx.fn(HANDLELIM, f'{CLS}.prune')
    srt = [n for n in walk_no_nested(f) if isinstance(n, ast.Call) and dotted(n.func) == 'sorted']
    keyfn = next((k.value for k in srt[0].keywords if k.arg == 'key'), None) if len(srt) == 1 else None
    if isinstance(keyfn, ast.Name):
        # a nested function used as the sort key: its returned expression
        defs = [d for d in ast.walk(f) if isinstance(d, ast.FunctionDef) and d is not f and d.name == keyfn.id]
        rets = [r_ for d in defs for r_ in walk_no_nested(d) if isinstance(r_, ast.Return) and r_.value is not None]
        keyfn = rets[0].value if len(defs) == 1 and len(rets) == 1 else None
    elif isinstance(keyfn, ast.Lambda):
        keyfn = keyfn.body
    ok = len(srt) == 1 and keyfn is not None and src(keyfn).startswith('self.openHandles[') and src(keyfn).endswith("['lastw']") and not any(k.arg == 'reverse' for k in srt[0].keywords) \
        and src(srt[0].args[0]) in ('self.openHandles', 'self.openHandles.keys()', 'list(self.openHandles.keys())', 'list(self.openHandles)')
    if not ok and len(srt) == 1 and not srt[0].keywords and srt[0].args and isinstance(srt[0].args[0], (ast.GeneratorExp, ast.ListComp)):
        # decorate-sort: tuples (last write time, tie-breaker ..., path) sorted ascending
        g_ = srt[0].args[0]
        ok = isinstance(g_.elt, ast.Tuple) and len(g_.elt.elts) >= 2 and src(g_.elt.elts[0]).endswith("['lastw']") and 'self.openHandles' in src(g_.generators[0].iter) and not g_.generators[0].ifs
    sorted_names = {s_.targets[0].id for s_ in walk_no_nested(f) if isinstance(s_, ast.Assign) and len(s_.targets) == 1 and isinstance(s_.targets[0], ast.Name) and s_.value in srt}
    sl = [n for n in walk_no_nested(f) if isinstance(n, ast.Subscript) and isinstance(n.slice, ast.Slice) and (n.value in srt or (isinstance(n.value, ast.Name) and n.value.id in sorted_names))]
    ok = ok and len(sl) == 1 and sl[0].slice.lower is None and sl[0].slice.upper is not None
    ctx.emit('C19-R4', ok, HANDLELIM, f, 'prune() drops the least recently written handles (ascending lastw, prefix of length #open - maxHandles)', key='prune-oldest')


@rule('C19', 'C19-R5', 'single-cell FASTQ output goes through the HandleLimiter with the gzip method and a per-cell, per-mate path')
def r5(ctx):
    f = ctx.fn(FQHANDLE, 'FastqHandle.write')
    calls = [c for c in walk_no_nested(f) if isinstance(c, ast.Call) and src(c.func) == 'self.handles.write' and len(c.args) >= 2]
    ctx.need('C19-R5', len(calls), 1, 'HandleLimiter.write calls in FastqHandle.write')
    for c in calls:
        meth = [k for k in c.keywords if k.arg == 'method']
        ok = bool(meth) and isinstance(meth[0].value, ast.Constant) and meth[0].value.value == 1
        p = c.args[0]
        # the path names the cell (the record's `bi` and `MX` tags, directly or through a local of the loop) and the mate label of the zip loop
        loops = enclosing_loops(f, c)
        lv = {n for l in loops for n in loop_targets(l.target)}
        defs = {}
        for l in loops:
            for a in walk_no_nested(l):
                if isinstance(a, ast.Assign) and len(a.targets) == 1 and isinstance(a.targets[0], ast.Name):
                    defs.setdefault(a.targets[0].id, []).append(a.value)
        exprs = [p]
        seen = set()
        work = list(names_in(p))
        while work:
            nme = work.pop()
            if nme in seen:
                continue
            seen.add(nme)
            for v in defs.get(nme, []):
                exprs.append(v)
                work.extend(names_in(v))
        consts = {x.value for e_ in exprs for x in ast.walk(e_) if isinstance(x, ast.Constant)}
        used = {n for e_ in exprs for n in names_in(e_)}
        tags_of_record = any(isinstance(x, ast.Attribute) and x.attr == 'tags' and isinstance(x.value, ast.Name) and x.value.id in lv for e_ in exprs for x in ast.walk(e_))
        okp = isinstance(p, ast.JoinedStr) and src(p).rstrip("'\"").endswith('.gz') and {'bi', 'MX'} <= consts and tags_of_record and bool(names_in(p) & lv)
        ctx.emit('C19-R5', ok and okp, FQHANDLE, c, f'per-cell write: path {src(p)} method={src(meth[0].value) if meth else None}', key='sc-write-gzip')
    # the cell a record is filed under is its own tag value - 0 and '' are values: a tag read is not replaced by the fall-back name because it is falsy
    falls = [b for b in ast.walk(f) if isinstance(b, ast.BoolOp) and isinstance(b.op, ast.Or) and isinstance(b.values[0], ast.Call) and isinstance(b.values[0].func, ast.Attribute)
             and b.values[0].func.attr in ('get', 'get_tag') and 'tags' in src(b.values[0].func.value)] + \
            [i_ for i_ in ast.walk(f) if isinstance(i_, ast.IfExp) and isinstance(i_.test, ast.Call) and isinstance(i_.test.func, ast.Attribute) and i_.test.func.attr == 'get' and 'tags' in src(i_.test.func.value)]
    ctx.emit('C19-R5', not falls, FQHANDLE, falls[0] if falls else f, 'the cell name is built from the tag values as they are (a missing tag, not a falsy one, gets the fall-back name)' if not falls else
             f'`{src(falls[0])[:70]}` replaces a falsy tag value (cell index 0, an empty string) by the fall-back name: the records of that cell are written to the file of the unassigned reads',
             key='cell-name-from-tag-value', witness={'tag value': 0, 'file': 'no_cell_id'} if falls else None, what='FastqHandle.write: a falsy tag value is filed under the fall-back cell', nontrivial=False)
    # bamSplitByTag and others: informational count of HandleLimiter users
    g = ctx.fn(FQHANDLE, 'FastqHandle.close')
    ok = any(isinstance(n, ast.Call) and src(n.func) == 'self.handles.close' for n in walk_no_nested(g))
    ctx.emit('C19-R5', ok, FQHANDLE, g, 'FastqHandle.close closes the limiter (flushes every gzip member)', key='sc-close', nontrivial=False)


@rule('C19', 'C19-R6', 'no arithmetic of the limiter can fail on a legal setting: a configuration value (constructor parameter stored on self) is never a divisor / '
                       'modulus (pruneEvery = 0 and maxHandles = 0 are accepted settings meaning "prune after every write" / "keep nothing open")')
def r6(ctx):
    _model_backed(ctx, 'C19-R6', _r6_structural)


def _r6_structural(ctx):
    cls = ctx.ix.cls(HANDLELIM, CLS)
    init = [m for m in cls.body if isinstance(m, ast.FunctionDef) and m.name == '__init__']
    params = {a.arg for a in init[0].args.args[1:]} if init else set()
    config = {src(t) for n in (walk_no_nested(init[0]) if init else []) if isinstance(n, ast.Assign) and isinstance(n.value, ast.Name) and n.value.id in params for t in n.targets}
    bad = []
    n = 0
    for m in cls.body:
        if not isinstance(m, ast.FunctionDef):
            continue
        for b in walk_no_nested(m):
            if isinstance(b, (ast.BinOp, ast.AugAssign)) and isinstance(b.op, (ast.Mod, ast.Div, ast.FloorDiv)):
                n += 1
                right = b.right if isinstance(b, ast.BinOp) else b.value
                if isinstance(b, ast.BinOp) and isinstance(b.left, ast.Constant) and isinstance(b.left.value, str):
                    continue        # string formatting
                if src(right) in config or (names_in(right) & params):
                    bad.append((m.name, b))
    ctx.emit('C19-R6', not bad, HANDLELIM, bad[0][1] if bad else cls, f'{n} division / modulo operations in HandleLimiter, none by a configuration value' if not bad else
             f'{CLS}.{bad[0][0]} computes `{src(bad[0][1])[:50]}`: the setting 0 (a legal value) raises ZeroDivisionError while a record is written', key='no-division-by-configuration',
             what='HandleLimiter divides by a configuration value that may be 0')


def _model_backed(ctx, rid, structural):
    """HandleLimiter clauses: the structural reading of the clause is kept as it is when the interpreted model of the class (limiter_model) cannot be
    run.  When it can, it decides: a model that passes every scenario overrides what the structural rule could not recognise in a restructured
    method (its discharged obligations stay as supporting detail), a model that fails is reported with its scenario next to the structural findings."""
    from ..core import Ctx, VIOLATED, UNDECIDED
    sub = Ctx(ctx.ix, 'C19', ctx.tier)
    sub._limiter_model = getattr(ctx, '_limiter_model', None) if hasattr(ctx, '_limiter_model') else None
    if not hasattr(ctx, '_limiter_model'):
        delattr(sub, '_limiter_model')
    err = None
    try:
        structural(sub)
    except AnalysisError as e_:
        err = e_
    except Exception as e_:           # a restructured method the structural reading trips over: the model decides, the error only counts when it cannot
        err = AnalysisError(f'structural reading failed ({type(e_).__name__}: {e_})')
    for k_, v_ in sub.counters.items():
        if isinstance(v_, set):
            ctx.counters[k_] = ctx.counters.get(k_, set()) | v_
        else:
            ctx.counters[k_] = ctx.counters.get(k_, 0) + v_
    for k_, v_ in getattr(sub, 'exhaustive', {}).items():
        ctx.exhaustive[k_] = v_
    if hasattr(sub, 'handler_states'):
        ctx.handler_states = sub.handler_states
    m = limiter_model(ctx)
    if m is None:
        ctx.obligations.extend(sub.obligations)
        if err is not None:
            raise err
        return
    ok, nsc, wit = m
    f = ctx.fn(HANDLELIM, f'{CLS}.write')
    if ok:
        kept = [o for o in sub.obligations if o.status not in (VIOLATED, UNDECIDED)]
        dropped = len(sub.obligations) - len(kept)
        ctx.obligations.extend(kept)
        if dropped or err is not None or not kept:
            ctx.emit(rid, True, HANDLELIM, f, f'HandleLimiter interpreted on {nsc} scenarios (write sequences over three paths, maxHandles 0..2, pruneEvery 0..3, open-handle budgets, one-off open '
                     f'failures, files left from an earlier run, two limiters in a row): no write fails while room can be made, every file holds exactly its records once, close() leaves nothing open'
                     + (f' (the structural reading did not recognise {dropped} construct(s) of the restructured methods)' if dropped or err is not None else ''), key='limiter-model')
    else:
        ctx.obligations.extend(sub.obligations)
        ctx.emit(rid, False, HANDLELIM, f, f'HandleLimiter interpreted on model scenarios: {wit.get("problem")} - scenario {({k_: v_ for k_, v_ in wit.items() if k_ != "problem"})}', key='limiter-model', witness=wit,
                 what='HandleLimiter: ' + str(wit.get('problem')))


def limiter_model(ctx):
    """HandleLimiter (write / prune / close, and whatever private helpers they call) run by the abstract interpreter against a model of the file
    system: paths are tokens, a handle remembers its path, mode and whether it is open; opening in a 'w' mode empties the file; opening fails
    (OSError) while the number of open handles has reached the budget of the scenario (EMFILE), or once at a chosen attempt (transient failure).
    Scenarios: every write sequence over three paths of length <= 5 from a fixed set, maxHandles 1..2, pruneEvery 1..3, budgets 1..3 / unlimited,
    plain and gzip method.  Required: no exception while closing the other handles can make room (budget >= 1); an exception of a transient failure
    only when no other handle was open; afterwards every file holds exactly the records written to it, in order, once; close() leaves no handle open.
    Returns (ok, scenarios, witness) or None when the class is outside the interpreted subset.  Cached per run."""
    if hasattr(ctx, '_limiter_model'):
        return ctx._limiter_model
    import itertools
    from ..consteval import run_function, Unfoldable, Raised, ExternalRef, LocalFn, fold, TOP
    ctx._limiter_model = None
    mod = ctx.ix.module(HANDLELIM)
    # the methods of the class and, below them, those it inherits from base classes of the same module (a private registry / mixin the class was split into)
    cdef0 = ctx.ix.cls(HANDLELIM, CLS)
    mro, todo = [], [cdef0]
    while todo:
        c_ = todo.pop(0)
        mro.append(c_)
        for b_ in c_.bases:
            if isinstance(b_, ast.Name):
                bd = [x for x in mod.tree.body if isinstance(x, ast.ClassDef) and x.name == b_.id]
                todo.extend(bd[:1])
    meths, owner = {}, {}
    for c_ in mro:
        for st_ in c_.body:
            if isinstance(st_, ast.FunctionDef) and st_.name not in meths:
                meths[st_.name] = st_
                owner[st_.name] = c_
    inherited = {c_.name: {st_.name: st_ for st_ in c_.body if isinstance(st_, ast.FunctionDef)} for c_ in mro}
    if 'write' not in meths or '__init__' not in meths or 'close' not in meths:
        return None
    seqs = [('A',), ('A', 'A'), ('A', 'B', 'A'), ('A', 'B', 'C', 'A'), ('A', 'B', 'A', 'C', 'B'), ('A', 'B', 'C', 'B', 'A'), ('A', 'A', 'B', 'B', 'A')]
    n = 0

    class World:
        def __init__(self, budget, fail_at):
            self.files, self.handles, self.opens, self.budget, self.fail_at, self.clock = {}, [], 0, budget, fail_at, 0
            self.failed_alone = None
            self.lenient = False

        def n_open(self):
            return sum(1 for h in self.handles if h['open'])

    def make_hook(world, env_root):
        def call_method(ev, name, call, env, m=None):
            m = m if m is not None else meths[name]
            args = ['<self>'] + [ev.ev(x, env) for x in call.args]
            kw = {k.arg: ev.ev(k.value, env) for k in call.keywords if k.arg}
            out = {}
            try:
                r = run_function(m, args, kw, env={k_: v_ for k_, v_ in env.items() if k_.startswith('self.') or k_ in ('gzip.open', 'open')}, budget=200000, call_hook=hook, out_scope=out, is_subclass=None, active=[])
            finally:
                for k_, v_ in out.items():
                    if k_.startswith('self.'):
                        env[k_] = v_
            return r

        def hook(ev, call, env):
            d = dotted(call.func) or ''
            if d in ('gzip.open', 'open'):
                a = [ev.ev(x, env) for x in call.args]
                kw = {k.arg: ev.ev(k.value, env) for k in call.keywords if k.arg}
                path, mode = a[0], (a[1] if len(a) > 1 else kw.get('mode', 'r'))
                world.opens += 1
                if (world.budget is not None and world.n_open() >= world.budget) or world.opens == world.fail_at:
                    if world.n_open() == 0:
                        world.failed_alone = True
                    raise Raised('OSError', 'too many open files', errno=24 if world.opens != world.fail_at else 23)       # EMFILE for the budget, ENFILE for the one-off failure
                if mode.startswith('w'):
                    world.files[path] = []
                else:
                    world.files.setdefault(path, [])
                h = {'path': path, 'mode': mode, 'open': True, 'gz': d == 'gzip.open', 'id': len(world.handles)}
                world.handles.append(h)
                return h
            if d == 'time.time':
                world.clock += 1
                return world.clock
            if d == 'bytes':
                return ('bytes', ev.ev(call.args[0], env))
            if d == 'print':
                return None
            if d in ('os.path.exists', 'os.path.isfile'):
                return ev.ev(call.args[0], env) in world.files
            if d in ('logging.getLogger',) or d.startswith('logger.') or d.startswith('logging.'):
                return None
            if isinstance(call.func, ast.Attribute) and isinstance(call.func.value, ast.Call) and dotted(call.func.value.func) == 'super':
                # super().m(..): the next definition of m behind the class that defines the running method
                names_ = [c_.name for c_ in mro]
                for cn_ in names_[1:]:
                    if call.func.attr in inherited[cn_]:
                        return call_method(ev, call.func.attr, call, env, m=inherited[cn_][call.func.attr])
                if call.func.attr == '__init__':
                    return None
                return NotImplemented
            if isinstance(call.func, ast.Attribute):
                if d.startswith('self.') and d[5:] in meths and '.' not in d[5:]:
                    return call_method(ev, d[5:], call, env)
                if call.func.attr in ('write', 'close', 'flush'):
                    try:
                        recv = ev.ev(call.func.value, env)
                    except Unfoldable:
                        return NotImplemented
                    if isinstance(recv, dict) and 'mode' in recv and 'open' in recv:
                        if call.func.attr == 'close':
                            recv['open'] = False
                            return None
                        if call.func.attr == 'flush':
                            return None
                        if not recv['open']:
                            raise Raised('ValueError', 'write to closed file')
                        x = ev.ev(call.args[0], env)
                        if recv['gz'] != isinstance(x, tuple) and not world.lenient:
                            raise Raised('TypeError', 'text / bytes mismatch')
                        world.files[recv['path']].append(x[1] if isinstance(x, tuple) else x)
                        return None
            return NotImplemented
        return hook
    try:
        for seq in seqs:
            for maxh, prune_every, budget, method, fail_at in itertools.product((0, 1, 2), (0, 1, 3), (None, 0, 1, 2), (0, 1, None), (None, 1, 2, 3)):
                if budget is not None and fail_at is not None:
                    continue
                if (method is None or budget == 0) and not (maxh == 2 and prune_every == 3 and fail_at is None and (budget in (None, 0))):
                    continue            # the unset method and the 'nothing can be opened' world: one configuration each
                if (maxh == 0 or prune_every == 0) and (budget is not None or fail_at is not None or method == 0):
                    continue            # the extreme settings are run without failures only
                n += 1
                world = World(budget, fail_at)
                # files left over from an earlier run: the first open of a path has to empty them
                world.files = {'A': ['stale'], 'C': ['stale']}
                world.lenient = method is None        # which of text / bytes an unset method writes is not part of the property
                env = {}
                hook = make_hook(world, env)
                out = {}
                # class level constants, the methods as bound values (key functions), the two openers as values
                base_env = {'gzip.open': ExternalRef('gzip.open'), 'open': ExternalRef('open')}
                for cdef in reversed(mro):
                    for st_ in cdef.body:
                        if isinstance(st_, ast.Assign) and len(st_.targets) == 1 and isinstance(st_.targets[0], ast.Name):
                            v_ = fold(st_.value, dict(base_env))
                            if v_ is not TOP:
                                base_env['self.' + st_.targets[0].id] = v_
                for mn_, md_ in meths.items():
                    base_env.setdefault('self.' + mn_, LocalFn(md_, env, bound='<self>'))
                run_function(meths['__init__'], ['<self>'], {'maxHandles': maxh, 'pruneEvery': prune_every}, env=dict(base_env), budget=20000, call_hook=hook, out_scope=out)
                env.update(base_env)
                env.update({k_: v_ for k_, v_ in out.items() if k_.startswith('self.')})
                written = {}
                case = {'writes': list(seq), 'maxHandles': maxh, 'pruneEvery': prune_every, 'open-handle budget': budget, 'method': method, 'open attempt that fails once': fail_at}
                raised = None
                for i, p_ in enumerate(seq):
                    rec = f'{p_}{i}'
                    out = {}
                    try:
                        run_function(meths['write'], ['<self>', p_, rec], {'method': method}, env=dict(env), budget=30000, call_hook=hook, out_scope=out)
                    except Raised as r_:
                        raised = (i, r_.name)
                        env.update({k_: v_ for k_, v_ in out.items() if k_.startswith('self.')})
                        break
                    except Unfoldable as u_:
                        if 'budget' in str(u_):
                            ctx._limiter_model = (False, n, dict(case, problem=f'write number {i + 1} does not come back: the open is retried for ever (nothing is left to close and the failure is not raised)'))
                            return ctx._limiter_model
                        raise
                    env.update({k_: v_ for k_, v_ in out.items() if k_.startswith('self.')})
                    written.setdefault(p_, []).append(rec)
                if budget == 0 and raised is None:
                    ctx._limiter_model = (False, n, dict(case, problem='no file can be opened at all, yet write() returns as if the record had been written'))
                    return ctx._limiter_model
                if raised is not None and raised[1] != 'OSError':
                    ctx._limiter_model = (False, n, dict(case, problem=f'write number {raised[0] + 1} fails with {raised[1]}: not the open failure itself but a follow-up error of an entry left without a handle'))
                    return ctx._limiter_model
                if raised is not None:
                    if (budget is not None and budget > 0) or not world.failed_alone:
                        ctx._limiter_model = (False, n, dict(case, problem=f'write number {raised[0] + 1} raises {raised[1]} although closing the other open handles would have made room'))
                        return ctx._limiter_model
                    continue
                out = {}
                run_function(meths['close'], ['<self>'], env=dict(env), budget=100000, call_hook=hook, out_scope=out)
                leaked = [h['path'] for h in world.handles if h['open']]
                if leaked:
                    ctx._limiter_model = (False, n, dict(case, problem=f'after close() handles of {sorted(set(leaked))} are still open: what was written through them is not flushed'))
                    return ctx._limiter_model
                for p_, recs in written.items():
                    if world.files.get(p_) != recs:
                        ctx._limiter_model = (False, n, dict(case, problem=f'file {p_} holds {world.files.get(p_)} after the records {recs} were written to it'))
                        return ctx._limiter_model
        # a second limiter of the same process that writes the same path anew starts the file over (what was opened before is per instance)
        for method in (0, 1):
            n += 1
            world = World(None, None)
            world.files = {}
            shared = {'gzip.open': ExternalRef('gzip.open'), 'open': ExternalRef('open')}
            cdef = ctx.ix.cls(HANDLELIM, CLS)
            for st_ in cdef.body:
                if isinstance(st_, ast.Assign) and len(st_.targets) == 1 and isinstance(st_.targets[0], ast.Name):
                    v_ = fold(st_.value, dict(shared))
                    if v_ is not TOP:
                        shared['self.' + st_.targets[0].id] = v_          # one object for all instances, like a class attribute
            last = None
            for inst in (1, 2):
                env = {}
                hook = make_hook(world, env)
                out = {}
                be = dict(shared)
                for mn_, md_ in meths.items():
                    be.setdefault('self.' + mn_, LocalFn(md_, env, bound='<self>'))
                run_function(meths['__init__'], ['<self>'], {'maxHandles': 2, 'pruneEvery': 3}, env=dict(be), budget=20000, call_hook=hook, out_scope=out)
                env.update(be)
                env.update({k_: v_ for k_, v_ in out.items() if k_.startswith('self.')})
                for i in range(2):
                    out = {}
                    run_function(meths['write'], ['<self>', 'A', f'run{inst}-{i}'], {'method': method}, env=dict(env), budget=200000, call_hook=hook, out_scope=out)
                    env.update({k_: v_ for k_, v_ in out.items() if k_.startswith('self.')})
                out = {}
                run_function(meths['close'], ['<self>'], env=dict(env), budget=100000, call_hook=hook, out_scope=out)
                last = [f'run{inst}-0', f'run{inst}-1']
            if world.files.get('A') != last:
                ctx._limiter_model = (False, n, {'scenario': 'two limiters, one after the other, write the same path', 'problem': f'file A holds {world.files.get("A")} after the second limiter wrote {last}: '
                                                 'what has been opened before is remembered across instances, the second run appends to the output of the first'})
                return ctx._limiter_model
    except (Unfoldable, Raised) as ex_:
        ctx._limiter_model_reason = str(ex_)
        return None
    except Exception as ex_:
        ctx._limiter_model_reason = repr(ex_)
        return None
    ctx._limiter_model = (True, n, None)
    return ctx._limiter_model


def mate_labels(ctx):
    """the mate labels the per-cell branch of FastqHandle.write zips the records with, for pairedEnd True / False (single_cell on): {flag: tuple | None}
    plus the loop.  The labels may be a literal or an attribute the constructor sets."""
    from ..consteval import fold, TOP
    from ..util import explore, mk_atoms
    w = ctx.fn(FQHANDLE, 'FastqHandle.write')
    init = ctx.fn(FQHANDLE, 'FastqHandle.__init__')
    loops = [l for l in walk_no_nested(w) if isinstance(l, ast.For) and any(isinstance(c, ast.Call) and src(c.func) == 'self.handles.write' for c in ast.walk(l))]
    if len(loops) != 1 or not (isinstance(loops[0].iter, ast.Call) and dotted(loops[0].iter.func) == 'zip' and len(loops[0].iter.args) == 2):
        return None, None
    lab = loops[0].iter.args[0]
    out = {}
    for paired in (True, False):
        v = fold(lab, {})
        if v is TOP and isinstance(lab, ast.Attribute) and isinstance(lab.value, ast.Name) and lab.value.id == 'self':
            vals = set()
            for r in explore(init.body, mk_atoms({'single_cell': True, 'self.sc': True, 'pairedEnd': paired, 'self.pe': paired}), env0={'pairedEnd': paired, 'single_cell': True}):
                st = [vv for t, vv, k in r['stores'] if t == f'self.{lab.attr}']
                if st:
                    x = fold(ast.parse(st[-1], mode='eval').body, {'pairedEnd': paired, 'single_cell': True})
                    vals.add(tuple(x) if isinstance(x, (tuple, list)) else None)
                else:
                    vals.add(None)
            v = list(vals)[0] if len(vals) == 1 else TOP
        out[paired] = tuple(v) if isinstance(v, (tuple, list)) else None
    return out, loops[0]


@rule('C19', 'C19-R7', 'the per-cell writer writes every mate it is given: the mate labels it zips the records with name both mates whatever the pairedEnd flag says '
                       '(zip stops at the shorter sequence - with one label the second record of every pair is dropped without a trace)')
def r7(ctx):
    labs, loop = mate_labels(ctx)
    if labs is None:
        ctx.emit('C19-R7', False, FQHANDLE, ctx.fn(FQHANDLE, 'FastqHandle.write'), 'per-cell write loop `for label, record in zip(labels, records)` not found', key='sc-all-mates', undecided=True)
        return
    if any(v is None for v in labs.values()):
        ctx.emit('C19-R7', False, FQHANDLE, loop, f'mate labels `{src(loop.iter.args[0])}` could not be evaluated ({labs})', key='sc-all-mates', undecided=True)
        return
    bad = [p_ for p_, v in labs.items() if len(v) < 2 or len(set(v)) != len(v)]
    ctx.emit('C19-R7', not bad, FQHANDLE, loop, f'per-cell writer labels the records {labs[True]} (pairedEnd) / {labs[False]} (not pairedEnd)' +
             ('' if not bad else f': with pairedEnd={bad[0]} only {len(labs[bad[0]])} label - the second record handed to write() is never written'), key='sc-all-mates',
             witness={'pairedEnd': bad[0], 'labels': list(labs[bad[0]])} if bad else None, what='FastqHandle.write (per-cell mode) drops the second mate')


META = {
    'text': ('Decides for every path of HandleLimiter.write (retry loop unrolled twice, an exception edge from every call): '
             'each use of openHandles[path] happens with the entry present (effect summaries of close()/prune() are '
             'computed from their bodies); truncating modes are used only on the first open of a path and are followed by '
             'seen.add, all later opens append; the record is written exactly once; the failure arm raises iff no other '
             'handle is open and otherwise closes the others and retries; prune/close close before dropping entries; the '
             'single-cell FASTQ writer uses the gzip method. Does NOT decide the bytes of the produced files nor real OS '
             'behaviour under EMFILE.'),
    'technique': 'static analysis: dict-key typestate along exception-aware CFG paths with computed method effect summaries, path checks of open modes, comparison-predicate enumeration of the raise guard; model-based abstract execution of the HandleLimiter class against a file-system model (write sequences over three paths, handle limits 0..2, prune intervals 0..3, open-handle budgets, one-off open failures, stale files, two limiters in a row)',
    'design_ref': 'DESIGN.md section 5, C19',
}


from . import shared as _shared
_shared.register('C19', 'C19')
