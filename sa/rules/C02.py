"""C02 - demultiplexed records contain exactly the bases the protocol layout prescribes (layout tables by constant propagation)."""
import ast
import gzip
import json
import os

from ..core import rule, VERIF
from ..index import AnalysisError, dotted, src, walk_no_nested, names_in
from ..consteval import Evaluator, Unfoldable, TOP, fold
from ..objeval import ObjInterpreter, Obj, Opaque
from ..util import arg, src_canon, returned_names
from ..cfg import CFG
from .slots import LOADER, BASEDEMUX, DEMUXMODS, P

MD = P + 'modularDemultiplexer/'
PINNED = os.path.join(VERIF, 'sa', 'rules', 'C02_layouts.json')
INF = 10 ** 6
# sequence slices that legitimately have no quality twin (one line of reason each)
NO_QUAL_TWIN = {
    'self.random_primer_slice': 'the random primer is recorded as sequence only (tag rS has no quality counterpart)',
}


def registered(ctx):
    m = ctx.ix.module(LOADER)
    for n in ast.walk(m.tree):
        if isinstance(n, ast.Assign) and src(n.targets[0]) == 'self.demux_classes' and isinstance(n.value, ast.List):
            return [(src(e), e) for e in n.value.elts]
    raise AnalysisError('loader: self.demux_classes list not found')


def resolve_all(ctx):
    if getattr(ctx, '_c02_objs', None) is not None:
        return ctx._c02_objs
    oi = ObjInterpreter(ctx.ix)
    out = []
    for name, node in registered(ctx):
        cls = name.split('.')[-1]
        try:
            o = oi.instantiate(cls, {'barcodeFileParser': Opaque('barcodeFileParser'), 'indexFileParser': Opaque('indexFileParser'), 'indexFileAlias': 'illumina_merged_ThruPlex48S_RP'})
            out.append((cls, node, o, None))
        except (Unfoldable, RecursionError) as ex:
            out.append((cls, node, None, str(ex)))
    ctx._c02_objs = out
    ctx._c02_interp = oi
    return out


def iv(s, length_hint=None):
    """half-open interval (start, stop) of a slice with non-negative bounds; stop None -> INF; negative -> None (end relative)"""
    if not isinstance(s, slice):
        return None
    a = s.start or 0
    b = INF if s.stop is None else s.stop
    if a < 0 or b < 0:
        return ('end', a, b)
    return (a, b)


def tag_stores(f):
    """tag stores of a demultiplex method, however they are written: X.tags[K] = V, X.addTagByTag(K, V), X.tags.update({K: V}), or a dictionary
    that is filled (D = {K: V}, D[K] = V, D.update({K: V})) and handed to X.tags.update(D).  Returns {key: [(value expr, node)]}."""
    stores = {}
    tag_dicts = {src(c.args[0]) for c in walk_no_nested(f) if isinstance(c, ast.Call) and isinstance(c.func, ast.Attribute) and c.func.attr == 'update'
                 and src(c.func.value).endswith('.tags') and c.args and isinstance(c.args[0], ast.Name)}

    def is_tag_target(e):
        return src(e).endswith('.tags') or src(e) in tag_dicts
    for n_ in walk_no_nested(f):
        if isinstance(n_, ast.Assign):
            for t_ in n_.targets:
                if isinstance(t_, ast.Subscript) and is_tag_target(t_.value) and isinstance(t_.slice, ast.Constant):
                    stores.setdefault(t_.slice.value, []).append((n_.value, n_))
                if isinstance(t_, ast.Name) and t_.id in tag_dicts and isinstance(n_.value, ast.Dict):
                    for k_, v_ in zip(n_.value.keys, n_.value.values):
                        if isinstance(k_, ast.Constant):
                            stores.setdefault(k_.value, []).append((v_, n_))
        elif isinstance(n_, ast.Call) and isinstance(n_.func, ast.Attribute):
            if n_.func.attr == 'addTagByTag' and len(n_.args) >= 2 and isinstance(n_.args[0], ast.Constant):
                stores.setdefault(n_.args[0].value, []).append((n_.args[1], n_))
            elif n_.func.attr == 'update' and is_tag_target(n_.func.value) and n_.args and isinstance(n_.args[0], ast.Dict):
                for k_, v_ in zip(n_.args[0].keys, n_.args[0].values):
                    if isinstance(k_, ast.Constant):
                        stores.setdefault(k_.value, []).append((v_, n_))
    return stores


def layout_of(ctx, cls, o):
    """per mate: dict role -> list of intervals, plus capture start. Returns None for composite strategies (handled through their parts)."""
    lay = {0: {}, 1: {}}
    cap = {0: (0, INF), 1: (0, INF)}
    if 'sequenceCapture' in o and 'barcodeLength' in o:
        for m in (0, 1):
            c = o['sequenceCapture'][m]
            cap[m] = iv(c)
        if o.get('umiLength', 0):
            lay[o['umiRead']].setdefault('umi', []).append((o['umiStart'], o['umiStart'] + o['umiLength']))
        lay[o['barcodeRead']].setdefault('bc', []).append((o['barcodeStart'], o['barcodeStart'] + o['barcodeLength']))
        if o.get('random_primer_read') is not None and 'random_primer_slice' in o:
            lay[o['random_primer_read']].setdefault('rp', []).append(iv(o['random_primer_slice']))
    elif 'capture_slices' in o and 'barcode_slices' in o:
        for m in (0, 1):
            cap[m] = iv(o['capture_slices'][m])
            for role, key in (('umi', 'umi_slices'), ('bc', 'barcode_slices')):
                sl = o[key][m] if m < len(o[key]) else ()
                for s in sl:
                    lay[m].setdefault(role, []).append(iv(s))
    else:
        return None
    # extra tags cut by the class' own demultiplex (ligation bases ...)
    found = ctx._c02_interp.find_method(cls, 'demultiplex')
    if found is not None and found[0] not in ('UmiBarcodeDemuxMethod', 'ScatteredUmiBarcodeDemuxMethod', 'IlluminaBaseDemultiplexer'):
        f = found[2]
        env = {}
        ev = Evaluator(env)
        from ..objeval import ObjInterpreter as _OI
        # fold simple locals defined from self attributes
        attrs = {f'self.{k}': v for k, v in o.items() if isinstance(v, (int, str, type(None)))}
        # (to fixpoint: statements produced by inlining a helper share the line number of the call, so line order is not definition order)
        assigns = [x for x in walk_no_nested(f) if isinstance(x, ast.Assign) and isinstance(x.targets[0], ast.Name)]
        single = {x.targets[0].id for x in assigns if sum(1 for y in assigns if y.targets[0].id == x.targets[0].id) == 1}
        for _round in range(4):
            before = len(env)
            for s in assigns:
                if s.targets[0].id not in single:
                    continue
                v = fold(s.value, {**attrs, **env})
                if v is not TOP and isinstance(v, int):
                    env[s.targets[0].id] = v
            if len(env) == before:
                break
        # bases that are only looked at (a motif test `records[0].sequence[4:24] != MOTIF`, like startswith) are not cut out of the read
        compared = {id(x) for c_ in walk_no_nested(f) if isinstance(c_, ast.Compare) for x in ast.walk(c_)}
        compared |= {id(c_.func.value) for c_ in walk_no_nested(f) if isinstance(c_, ast.Call) and isinstance(c_.func, ast.Attribute)
                     and c_.func.attr in ('startswith', 'endswith', 'find', 'index', 'count', 'rfind')}
        for n in walk_no_nested(f):
            if id(n) in compared:
                continue
            if isinstance(n, ast.Subscript) and isinstance(n.slice, ast.Slice) and isinstance(n.value, ast.Attribute) and n.value.attr == 'sequence' \
                    and isinstance(n.value.value, ast.Subscript) and src(n.value.value.value) == 'records':
                mate = fold(n.value.value.slice, {**attrs, **env})
                lo = fold(n.slice.lower, {**attrs, **env}) if n.slice.lower is not None else 0
                hi = fold(n.slice.upper, {**attrs, **env}) if n.slice.upper is not None else INF
                if lo is not TOP and hi is not TOP and mate in (0, 1) and isinstance(lo, int) and isinstance(hi, int) and lo >= 0 and hi >= 0:
                    if (lo, hi) not in lay[mate].get('umi', []) + lay[mate].get('bc', []) + lay[mate].get('extra', []):
                        lay[mate].setdefault('extra', []).append((lo, hi))
    return lay, cap


def fmt_layout(lay, cap):
    out = {}
    for m in (0, 1):
        parts = []
        for role in sorted(lay[m]):
            for a, b in [x for x in lay[m][role] if x and x[0] != 'end']:
                parts.append(f'{role}[{a},{b if b < INF else "inf"})')
            for x in [x for x in lay[m][role] if x and x[0] == 'end']:
                parts.append(f'{role}[end{x[1]}:]')
        c = cap[m]
        parts.append(f'cap[{c[0]},{"inf" if c[1] >= INF else c[1]})' if c and c[0] != 'end' else f'cap{c}')
        out[f'm{m}'] = ' '.join(parts)
    return out


@rule('C02', 'C02-R0', 'layout extraction: every strategy class registered in the loader is resolved to its layout constants by constant '
                       'propagation through its constructor chain')
def r0(ctx):
    objs = resolve_all(ctx)
    ctx.need('C02-R0', len(objs), 20, 'registered strategy classes')
    for cls, node, o, err in objs:
        ok = o is not None and 'shortName' in o
        ctx.emit('C02-R0', ok, LOADER, node, f'{cls} -> {o.get("shortName") if o else None}' + (f' ({err})' if err else ''), key=f'resolved:{cls}', undecided=not ok, nontrivial=False)
    # short names unique
    names = [o['shortName'] for _, _, o, _ in objs if o and 'shortName' in o]
    dup = sorted({n for n in names if names.count(n) > 1})
    ctx.emit('C02-R0', not dup, LOADER, None, f'{len(names)} short names, ' + ('all distinct' if not dup else f'duplicates {dup}: --use cannot address one of them'), key='shortnames-unique')


@rule('C02', 'C02-R1', 'sequence and quality are always cut with the same slice of the same mate: in every demultiplex method the slices '
                       'applied to .sequence and to .qual / .qualities coincide')
def r1(ctx):
    files = [BASEDEMUX] + [p for p in ctx.ix.pyfiles() if p.startswith(DEMUXMODS)]
    n_fn = 0
    for rel in files:
        m = ctx.ix.module(rel)
        for q, ds in m.defs.items():
            for f in ds:
                if not isinstance(f, ast.FunctionDef) or f.name not in ('demultiplex',):
                    continue
                seqs, quals = [], []
                for n in walk_no_nested(f):
                    if isinstance(n, ast.Subscript) and isinstance(n.value, ast.Attribute) and n.value.attr in ('sequence', 'qual', 'qualities'):
                        if isinstance(n.slice, ast.Constant):
                            continue      # single base tests (probe), not a cut
                        key = (src(n.value.value), src(n.slice))
                        (seqs if n.value.attr == 'sequence' else quals).append((key, n))
                if not seqs and not quals:
                    continue
                n_fn += 1
                sk = sorted(k for k, _ in seqs)
                qk = sorted(k for k, _ in quals)
                # (a) a quality string is never cut differently from the sequence: every quality cut has an identical sequence cut
                miss_s = [k for k in set(qk) if qk.count(k) > sk.count(k)]
                # (b) what is emitted: `T.sequence = <cut>` needs `T.qualities = <same cut>`
                emitted = {}
                for st in walk_no_nested(f):
                    if isinstance(st, ast.Assign) and isinstance(st.targets[0], ast.Attribute) and st.targets[0].attr in ('sequence', 'qualities', 'qual'):
                        cuts = sorted((src(n.value.value), src(n.slice)) for n in walk_no_nested(st.value) if isinstance(n, ast.Subscript) and isinstance(n.value, ast.Attribute)
                                      and n.value.attr in ('sequence', 'qual', 'qualities') and not isinstance(n.slice, ast.Constant))
                        emitted.setdefault(src(st.targets[0].value), {}).setdefault('seq' if st.targets[0].attr == 'sequence' else 'qual', []).append(cuts)
                unpaired = [t for t, d in emitted.items() if sorted(d.get('seq', [])) != sorted(d.get('qual', []))]
                ok = not miss_s and not unpaired
                first = (seqs + quals)[0][1]
                ctx.emit('C02-R1', ok, rel, first, f'{q}: {len(sk)} sequence cuts / {len(qk)} quality cuts; ' + ('every quality cut has the identical sequence cut and emitted sequence / qualities are cut alike' if ok else
                         (f'quality cut without the identical sequence cut: {miss_s[:2]}' if miss_s else '') + (f' emitted record(s) {unpaired} get differently cut sequence and qualities: {[emitted[t] for t in unpaired][:1]}' if unpaired else '')),
                         key=f'{q}:seq-qual-alignment', what=f'{q}: sequence and quality are cut with different slices')
    ctx.need('C02-R1', n_fn, 8, 'demultiplex methods that cut reads')
    # (c) trimming helpers f(.., sequence, qualities) -> (sequence, qualities): on every path both strings are shortened by the same slices, and
    #     after an operation that changes the length of the sequence in a data dependent way (regex substitution, strip, replace ...) the
    #     qualities are re-aligned with `qualities[:len(sequence)]` before anything else happens to them
    n_trim = 0
    for rel in files:
        m = ctx.ix.module(rel)
        for q, ds in m.defs.items():
            for f in ds:
                if not isinstance(f, ast.FunctionDef):
                    continue
                params = [a.arg for a in f.args.args]
                rets = [r for r in walk_no_nested(f) if isinstance(r, ast.Return) and isinstance(r.value, ast.Tuple) and len(r.value.elts) == 2
                        and all(isinstance(e, ast.Name) and e.id in params for e in r.value.elts)]
                if not rets or len({(r.value.elts[0].id, r.value.elts[1].id) for r in rets}) != 1:
                    continue
                S, Q = rets[0].value.elts[0].id, rets[0].value.elts[1].id
                if not any(isinstance(x, ast.Subscript) and isinstance(x.value, ast.Name) and x.value.id == Q for x in walk_no_nested(f)):
                    continue
                n_trim += 1
                cfg = CFG(f.body, exceptions=False)
                bad = []

                def step(state, node, label):
                    aligned, ps, pq = state      # aligned: no rewrite of S is waiting for its re-alignment and nothing went wrong before
                    a = node.ast
                    if node.kind == 'stmt' and isinstance(a, ast.Assign) and len(a.targets) == 1 and isinstance(a.targets[0], ast.Name):
                        t, v = a.targets[0].id, a.value
                        if t == S:
                            if isinstance(v, ast.Subscript) and isinstance(v.value, ast.Name) and v.value.id == S:
                                ps = ps + (src(v.slice),)
                            else:
                                # data dependent rewrite: everything before must be balanced, then wait for the re-alignment
                                aligned = 'broken' if (aligned == 'broken' or ps != pq) else 'pending'
                                ps, pq = (), ()
                        elif t == Q:
                            if isinstance(v, ast.Subscript) and isinstance(v.value, ast.Name) and v.value.id == Q:
                                if src(v.slice).replace(' ', '') == f':len({S})':
                                    if aligned == 'pending' and not pq:
                                        aligned = True
                                    elif aligned is True and ps != pq:
                                        pass
                                    ps, pq = ((), ()) if aligned is True else (ps, pq)
                                else:
                                    pq = pq + (src(v.slice),)
                            else:
                                aligned = 'broken'
                    return (aligned, ps, pq)
                for pth, (aligned, ps, pq) in cfg.paths(state0=(True, (), ()), step=step):
                    if cfg.nodes[pth[-1][0]].info != 'return':
                        continue
                    if aligned is not True or ps != pq:
                        bad.append((aligned, ps, pq))
                ctx.counters['paths_enumerated'] += 1
                ctx.emit('C02-R1', not bad, rel, f, f'{q}: on every path {S} and {Q} are shortened by the same slices and re-aligned after a length changing rewrite of {S}' if not bad else
                         f'{q}: a path returns {S} / {Q} of different lengths (aligned after the last rewrite: {bad[0][0]}, slices on {S}: {list(bad[0][1])}, on {Q}: {list(bad[0][2])})',
                         key=f'{q}:trim-keeps-lengths', what=f'{q}: trimmed sequence and qualities can have different lengths')
    ctx.need('C02-R1', n_trim, 1, 'trimming helpers returning (sequence, qualities)')
    # (d) a trimming helper is handed the sequence and the qualities of ONE record and its result goes back to that record
    n_calls = 0
    for rel in files:
        m = ctx.ix.module(rel)
        for q, ds in m.defs.items():
            for f in ds:
                if not isinstance(f, ast.FunctionDef):
                    continue
                # positions of an unpacked record tuple: `a, b = records` -> a is records[0], b is records[1]
                pos = {}
                for st in walk_no_nested(f):
                    if isinstance(st, ast.Assign) and len(st.targets) == 1 and isinstance(st.targets[0], (ast.Tuple, ast.List)) and isinstance(st.value, ast.Name):
                        for i, e in enumerate(st.targets[0].elts):
                            if isinstance(e, ast.Name):
                                pos[e.id] = f'{st.value.id}[{i}]'
                canon = lambda t: pos.get(t, t)
                for st in walk_no_nested(f):
                    if not (isinstance(st, ast.Assign) and len(st.targets) == 1 and isinstance(st.targets[0], ast.Tuple) and len(st.targets[0].elts) == 2 and isinstance(st.value, ast.Call)):
                        continue
                    t0, t1 = st.targets[0].elts
                    if not (isinstance(t0, ast.Attribute) and isinstance(t1, ast.Attribute) and t0.attr == 'sequence' and t1.attr in ('qualities', 'qual')):
                        continue
                    a_seq = [a for a in st.value.args if isinstance(a, ast.Attribute) and a.attr == 'sequence']
                    a_q = [a for a in st.value.args if isinstance(a, ast.Attribute) and a.attr in ('qualities', 'qual')]
                    if len(a_seq) != 1 or len(a_q) != 1:
                        continue
                    n_calls += 1
                    recs = [canon(src(x.value)) for x in (t0, t1, a_seq[0], a_q[0])]
                    if len(set(recs)) == 1:
                        ctx.emit('C02-R1', True, rel, st, f'{q}: `{src(st)[:120]}` trims sequence and qualities of the one record {recs[0]}', key=f'{q}:trim-one-record')
                    else:
                        idx = [r for r in recs if r.endswith(']')]
                        definite = len({r for r in idx}) > 1 and len({r.split('[')[0] for r in idx}) == 1 and len(idx) == 4
                        if definite:
                            ctx.emit('C02-R1', False, rel, st, f'{q}: `{src(st)[:160]}` mixes records {sorted(set(recs))}: the trimmed bases of one mate are paired with the qualities of the other mate',
                                     key=f'{q}:trim-one-record', what=f'{q}: sequence and qualities handed to the trimming helper come from different mates')
                        else:
                            ctx.emit('C02-R1', False, rel, st, f'{q}: `{src(st)[:160]}`: cannot show that {sorted(set(recs))} denote one record', key=f'{q}:trim-one-record', undecided=True)
    ctx.need('C02-R1', n_calls, 1, 'trimming-helper call sites')
    # the scattered helpers are twins
    a, b = ctx.fn(BASEDEMUX, 'apply_slices_seq'), ctx.fn(BASEDEMUX, 'apply_slices_qual')
    def norm(f):
        # modulo the spelling of locals (numbered in order of first appearance) and the attribute read
        import copy
        m = copy.deepcopy(ast.Module(body=f.body, type_ignores=[]))
        params = {a_.arg for a_ in f.args.args}
        bound = [n_.id for n_ in ast.walk(m) if isinstance(n_, ast.Name) and isinstance(n_.ctx, ast.Store)]
        order = {}
        for n_ in ast.walk(m):
            if isinstance(n_, ast.Name) and n_.id in bound and n_.id not in params and n_.id not in order:
                order[n_.id] = f'v{len(order)}'
        for n_ in ast.walk(m):
            if isinstance(n_, ast.Name) and n_.id in order:
                n_.id = order[n_.id]
        return ast.dump(m).replace("attr='sequence'", "attr='@'").replace("attr='qual'", "attr='@'")
    ctx.emit('C02-R1', norm(a) == norm(b), BASEDEMUX, a, 'apply_slices_seq / apply_slices_qual are identical up to the attribute they read', key='scattered-twins')
    g = ctx.fn(BASEDEMUX, 'ScatteredUmiBarcodeDemuxMethod.demultiplex')
    ok = True
    for s in walk_no_nested(g):
        if isinstance(s, ast.Assign) and isinstance(s.targets[0], ast.Tuple) and len(s.targets[0].elts) == 2 and isinstance(s.value, ast.Tuple) and 'apply_slices_seq' in src(s.value.elts[0]):
            ok = ok and src(s.value.elts[0]).replace('apply_slices_seq', 'X') == src(s.value.elts[1]).replace('apply_slices_qual', 'X')
    ctx.emit('C02-R1', ok, BASEDEMUX, g, 'scattered UMI / barcode: sequence and qualities are assembled from the same (record, slices) pairs', key='scattered-same-slices')


@rule('C02', 'C02-R2', 'prefix coverage and role disjointness: on every mate the tag intervals cover every base before the emitted stretch '
                       'without a gap; UMI, barcode and random primer do not overlap')
def r2(ctx):
    objs = resolve_all(ctx)
    n = 0
    for cls, node, o, err in objs:
        if o is None:
            continue
        parts = [(cls, o)]
        if 'sequenceCapture' not in o and 'capture_slices' not in o:
            parts = [(f'{cls}.{k}', v) for k, v in o.items() if isinstance(v, Obj)]
        for pname, po in parts:
            res = layout_of(ctx, po.cls, po)
            if res is None:
                continue
            lay, cap = res
            n += 1
            sn = po.get('shortName')
            for m in (0, 1):
                c = cap[m]
                if not c or c[0] == 'end':
                    continue
                ivs = sorted(x for role in lay[m] for x in lay[m][role] if x and x[0] != 'end')
                # coverage of [0, cap.start)
                pos = 0
                gap = None
                for a, b in ivs:
                    if a > pos and pos < c[0]:
                        gap = (pos, min(a, c[0]))
                        break
                    pos = max(pos, b)
                if gap is None and pos < c[0]:
                    gap = (pos, c[0])
                ctx.emit('C02-R2', gap is None, LOADER, node, f'{pname} ({sn}) mate {m}: {fmt_layout(lay, cap)[f"m{m}"]}' + ('' if gap is None else f' - bases [{gap[0]},{gap[1]}) are neither recorded in a tag nor emitted'),
                         key=f'{pname}:m{m}:prefix-coverage', what=f'{sn}: bases before the emitted stretch of mate {m} are unaccounted for')
                # disjointness
                def overlap(x, y):
                    return max(x[0], y[0]) < min(x[1], y[1])
                roles = {r: [x for x in lay[m].get(r, []) if x and x[0] != 'end'] for r in ('umi', 'bc', 'rp')}
                clashes = []
                for r1_, r2_ in (('umi', 'bc'), ('rp', 'umi'), ('rp', 'bc')):
                    for x in roles[r1_]:
                        for y in roles[r2_]:
                            if overlap(x, y):
                                clashes.append(f'{r1_}{list(x)} overlaps {r2_}{list(y)}')
                # capture must not start before the end of umi / barcode (those bases would be emitted again as insert)
                for r_ in ('umi', 'bc'):
                    for x in roles[r_]:
                        if c[0] < x[1] and r_ == 'umi':
                            clashes.append(f'emitted stretch starts at {c[0]}, inside {r_}{list(x)}')
                ctx.emit('C02-R2', not clashes, LOADER, node, f'{pname} ({sn}) mate {m}: ' + ('roles are disjoint' if not clashes else '; '.join(clashes)),
                         key=f'{pname}:m{m}:role-disjoint', what=f'{sn}: ' + ('; '.join(clashes) if clashes else ''))
    ctx.need('C02-R2', n, 24, 'resolved layouts')


@rule('C02', 'C02-R4', 'role consistency: barcode / UMI are cut from the mate, start and length that carry the same role name, in both base classes')
def r4(ctx):
    f = ctx.fn(BASEDEMUX, 'UmiBarcodeDemuxMethod.demultiplex')
    n = 0
    # roles are decided by where a value ends up (never by the spelling of a local): the whitelist lookup / the `bc` tag receive the
    # barcode bases, `RX` the UMI bases, `RQ` the UMI qualities
    local = {}
    for s_ in sorted([x for x in walk_no_nested(f) if isinstance(x, ast.Assign) and len(x.targets) == 1 and isinstance(x.targets[0], ast.Name)], key=lambda x: x.lineno):
        local.setdefault(s_.targets[0].id, []).append(s_.value)

    def resolve(e, depth=0):
        """the expression a sink value denotes, through single-definition locals"""
        while isinstance(e, ast.Name) and e.id in local and len(local[e.id]) == 1 and depth < 4:
            e = local[e.id][0]
            depth += 1
        return e
    sinks = []
    for c in walk_no_nested(f):
        if isinstance(c, ast.Call) and isinstance(c.func, ast.Attribute):
            if c.func.attr == 'getIndexCorrectedBarcodeAndHammingDistance':
                v = arg(c, 1, 'barcode')
                if v is not None:
                    sinks.append(('whitelist lookup', 'barcode', 'sequence', v, c))
    for key_, lst_ in tag_stores(f).items():
        for v_, node_ in lst_:
            def strip_(e_):
                return e_.args[0] if isinstance(e_, ast.Call) and (dotted(e_.func) or '').endswith('phredToFastqHeaderSafeQualities') and e_.args else e_
            sinks.append((f'tag {key_}', None, None, strip_(v_), node_))
    ROLE = {'tag bc': ('barcode', 'sequence'), 'tag RX': ('umi', 'sequence'), 'tag RQ': ('umi', 'qual')}
    for name, role, field, v, node in sinks:
        if role is None:
            if name not in ROLE:
                continue
            role, field = ROLE[name]
        e = resolve(v)
        n += 1
        cut = e if isinstance(e, ast.Subscript) and isinstance(e.value, ast.Attribute) and e.value.attr in ('sequence', 'qual') else None
        used = set()

        def collect(x_, depth=0):
            for x in ast.walk(x_):
                if isinstance(x, ast.Attribute) and isinstance(x.value, ast.Name) and x.value.id == 'self':
                    used.add(x.attr)
                if isinstance(x, ast.Name) and x.id in local and depth < 3:
                    for d_ in local[x.id]:
                        collect(d_, depth + 1)
        if cut is not None:
            collect(cut.value.value)
            collect(cut.slice)
        want = {f'{role}Read', f'{role}Start', f'{role}Length'}
        ok = cut is not None and used == want and cut.value.attr == field
        ctx.emit('C02-R4', ok, BASEDEMUX, node, f'{name} receives `{src(e)[:80]}`' + (f' = .{cut.value.attr} cut with self.{sorted(used)}' if cut is not None else ' (not a cut of the read)') +
                 ('' if ok else f' - expected the .{field} cut with exactly {sorted(want)}'),
                 key=f'role-consistency:{name}', what=f'UmiBarcodeDemuxMethod: {name} is not the {role} stretch of the read')
    ctx.need('C02-R4', n, 4, 'role sinks (whitelist lookup, bc, RX, RQ) in UmiBarcodeDemuxMethod.demultiplex')
    # emitted stretch: in the loop over the mates, TR.sequence = REC.sequence[self.sequenceCapture[IDX]] (and qualities), where REC / TR are the
    # IDX-th input record and the IDX-th tagged record - written as enumerate(zip(..)), as an index loop, or with explicit subscripts
    ok = False
    cap = []
    recs = f.args.args[1].arg
    tagged = {x for t_ in returned_names(f) for x in t_}

    class Canon(ast.NodeTransformer):
        def __init__(self, m, idx):
            self.m, self.idx = m, idx

        def visit_Subscript(self, node):
            self.generic_visit(node)
            if isinstance(node.value, ast.Name) and isinstance(node.slice, ast.Name) and node.slice.id == 'IDX':
                if node.value.id == recs:
                    return ast.Name(id='REC', ctx=ast.Load())
                if node.value.id in tagged:
                    return ast.Name(id='TR', ctx=ast.Load())
            return node

        def visit_Name(self, node):
            if node.id in self.m:
                return ast.Name(id=self.m[node.id], ctx=node.ctx)
            if self.idx and node.id in self.idx and isinstance(node.ctx, ast.Load):
                return _copy.deepcopy(self.idx[node.id])
            return node
    import copy as _copy
    for l in walk_no_nested(f):
        if not isinstance(l, ast.For):
            continue
        m = {}
        sub_exprs = {}
        it = l.iter
        idxname = None
        tgt = l.target
        if isinstance(it, ast.Call) and dotted(it.func) == 'enumerate' and it.args and isinstance(tgt, ast.Tuple) and len(tgt.elts) == 2 and isinstance(tgt.elts[0], ast.Name):
            idxname = tgt.elts[0].id
            it, tgt = it.args[0], tgt.elts[1]
        if isinstance(it, ast.Call) and dotted(it.func) == 'zip' and isinstance(tgt, ast.Tuple) and len(tgt.elts) == len(it.args) and all(isinstance(x, ast.Name) for x in tgt.elts):
            zargs = [src(a_) for a_ in it.args]
            if recs not in zargs or not (set(zargs) & tagged):
                continue
            if idxname:
                m[idxname] = 'IDX'
            for nm, za in zip(tgt.elts, it.args):
                if src(za) == recs:
                    m[nm.id] = 'REC'
                elif src(za) in tagged:
                    m[nm.id] = 'TR'
                else:
                    # the k-th element of another per-mate sequence (e.g. the capture slices)
                    sub_exprs[nm.id] = ast.Subscript(value=za, slice=ast.Name(id='IDX', ctx=ast.Load()), ctx=ast.Load())
        elif isinstance(l.iter, ast.Call) and dotted(l.iter.func) == 'range' and isinstance(l.target, ast.Name) and recs in names_in(l.iter):
            m = {l.target.id: 'IDX'}
        else:
            continue
        got = {}
        for a_ in l.body:
            if isinstance(a_, ast.Assign) and len(a_.targets) == 1:
                tg, val = a_.targets[0], a_.value
                pairs = list(zip(tg.elts, val.elts)) if isinstance(tg, ast.Tuple) and isinstance(val, ast.Tuple) and len(tg.elts) == len(val.elts) else [(tg, val)]
                for t1, v1 in pairs:
                    cv = Canon(m, sub_exprs).visit(_copy.deepcopy(v1))
                    if isinstance(t1, ast.Name) and isinstance(cv, ast.Name) and cv.id in ('REC', 'TR'):
                        m[t1.id] = cv.id          # a local alias of the IDX-th record
                        continue
                    got[src(Canon(m, sub_exprs).visit(_copy.deepcopy(t1)))] = src(cv)
                    cap.append(a_)
        if 'TR.sequence' in got or 'TR.qualities' in got:
            ok = got.get('TR.sequence') == 'REC.sequence[self.sequenceCapture[IDX]]' and got.get('TR.qualities') == 'REC.qual[self.sequenceCapture[IDX]]'
    ctx.emit('C02-R4', ok, BASEDEMUX, cap[0] if cap else f, 'emitted sequence and qualities are the capture slice of the same mate (position in the zip of records and tagged records)', key='capture-same-mate')
    # where the emitted stretch starts for each strategy (after barcode + UMI, after an adapter ...) is part of the resolved layout compared with the pinned table by C02-R8;
    # no separate reading of how the base constructor spells the slice


@rule('C02', 'C02-R5', 'the barcode length of every layout equals the length of the barcodes in its whitelist file')
def r5(ctx):
    objs = resolve_all(ctx)
    root = ctx.ix.root
    bdir = MD + 'barcodes/'
    files = {}
    for fn in ctx.ix.listdir(bdir):
        alias = fn.replace('.gz', '').replace('.bc', '')
        files[alias] = fn
    n = 0

    def wl_lengths(alias):
        fn = files.get(alias)
        if fn is None:
            return None
        data = ctx.ix.read(bdir + fn, binary=True)
        if fn.endswith('.gz'):
            try:
                data = gzip.decompress(data) if data else b''
            except Exception:
                return set()
        lens = set()
        for line in data.decode('utf-8', errors='replace').splitlines():
            parts = line.strip().split()
            for p_ in parts:
                if p_ and all(c in 'ACGTNX' for c in p_):
                    lens.add(len(p_))
        return lens
    for cls, node, o, err in objs:
        if o is None:
            continue
        parts = [(cls, o)] + [(f'{cls}.{k}', v) for k, v in o.items() if isinstance(v, Obj)]
        for pname, po in parts:
            alias = po.get('barcodeFileAlias')
            if alias is None or alias is TOP:
                continue
            if 'barcodeLength' in po:
                bl = po['barcodeLength']
            elif 'barcode_slices' in po:
                bl = sum((s.stop - (s.start or 0)) for m in po['barcode_slices'] for s in m)
            else:
                continue
            lens = wl_lengths(alias)
            if lens is None:
                ctx.info(f'{pname}: whitelist alias {alias!r} has no shipped file (the strategy can accept nothing with the shipped data)')
                continue
            if not lens:
                ctx.info(f'{pname}: whitelist file of {alias!r} is empty in this tree (length check vacuous)')
                continue
            n += 1
            ctx.emit('C02-R5', lens == {bl}, LOADER, node, f'{pname}: barcode length {bl}, whitelist {alias!r} holds barcodes of length {sorted(lens)}', key=f'{pname}:whitelist-length',
                     what=f'{pname}: barcode length {bl} does not match whitelist {alias}')
    ctx.need('C02-R5', n, 20, 'layouts with a shipped whitelist')


@rule('C02', 'C02-R6', 'registration integrity: each registered name resolves to exactly one class definition in its module (no shadowed duplicate)')
def r6(ctx):
    n = 0
    reg = {name.split('.')[-1] for name, _ in registered(ctx)}
    for rel in [p for p in ctx.ix.pyfiles() if p.startswith(DEMUXMODS)] + [BASEDEMUX]:
        m = ctx.ix.module(rel)
        for q, ds in m.defs.items():
            cds = [d for d in ds if isinstance(d, ast.ClassDef)]
            if not cds or '.' in q:
                continue
            n += 1
            if len(cds) > 1:
                sn = []
                for d in cds:
                    for s in ast.walk(d):
                        if isinstance(s, ast.Assign) and src(s.targets[0]) == 'self.shortName' and isinstance(s.value, ast.Constant):
                            sn.append(s.value.value)
                ctx.emit('C02-R6', False, rel, cds[-1], f'class {q} is defined {len(cds)} times in {rel.split("/")[-1]} (lines {[d.lineno for d in cds]}, short names {sn}): the last definition shadows the others'
                         + (' and is the one the loader registers' if q in reg else ''), key=f'duplicate-class:{q}',
                         what=f'{rel.split("/")[-1]}: class {q} defined {len(cds)} times (short names {sn}); only the last one is reachable')
    ctx.emit('C02-R6', True, LOADER, None, f'{n} strategy classes scanned for duplicate definitions', key='scan', nontrivial=False)
    missing = [c for c in reg if c not in ctx.ix.class_table()]
    ctx.emit('C02-R6', not missing, LOADER, None, 'every registered name resolves to a class' if not missing else f'registered names without a class: {missing}', key='names-resolve')


@rule('C02', 'C02-R7', 'every demultiplex override returns a list of records on every path (never a single record / a loop element)')
def r7(ctx):
    n = 0
    for rel in [p for p in ctx.ix.pyfiles() if p.startswith(DEMUXMODS)] + [BASEDEMUX]:
        m = ctx.ix.module(rel)
        for q, ds in m.defs.items():
            for f in ds:
                if not isinstance(f, ast.FunctionDef) or f.name != 'demultiplex' or q.startswith('DemultiplexingStrategy.'):
                    continue
                kinds = {}
                loopvars = set()
                for l in walk_no_nested(f):
                    if isinstance(l, ast.For):
                        for t in ast.walk(l.target):
                            if isinstance(t, ast.Name):
                                loopvars.add(t.id)
                for s in sorted([x for x in walk_no_nested(f) if isinstance(x, ast.Assign) and isinstance(x.targets[0], ast.Name)], key=lambda s: s.lineno):
                    v = s.value
                    k = None
                    if isinstance(v, (ast.List, ast.ListComp)):
                        k = 'list'
                    elif isinstance(v, ast.Call) and isinstance(v.func, ast.Attribute) and v.func.attr == 'demultiplex':
                        k = 'list'
                    elif isinstance(v, ast.Name) and v.id in loopvars:
                        k = 'element'
                    elif isinstance(v, ast.Name) and v.id in kinds:
                        kinds.setdefault(s.targets[0].id, []).extend(kinds[v.id])
                        k = None
                    elif isinstance(v, ast.Constant) and v.value is None:
                        k = 'none'
                    elif isinstance(v, ast.Subscript):
                        k = 'element'
                    if k:
                        kinds.setdefault(s.targets[0].id, []).append(k)
                # a name the method itself walks with a for loop is a sequence of records (whatever produced it: a helper's result, an unpacked pair)
                for l in walk_no_nested(f):
                    if isinstance(l, ast.For) and isinstance(l.iter, ast.Name):
                        kinds.setdefault(l.iter.id, []).append('list')
                for r in [x for x in walk_no_nested(f) if isinstance(x, ast.Return) and x.value is not None]:
                    n += 1
                    v = r.value
                    if isinstance(v, (ast.List, ast.ListComp)) or (isinstance(v, ast.Call) and isinstance(v.func, ast.Attribute) and v.func.attr == 'demultiplex'):
                        ok, why = True, 'list expression'
                    elif isinstance(v, ast.Name):
                        ks = set(kinds.get(v.id, []))
                        ok = 'element' not in ks and bool(ks - {'none'})
                        why = f'`{v.id}` is bound to {sorted(ks)}'
                        if not ks:
                            # nothing known about the name (the result of a call this rule does not follow): no witness of a single record either
                            ctx.emit('C02-R7', True, rel, r, f'{q}: returns `{v.id}`, the result of a call (shape not followed)', key=f'{q}:return-shape:{src(v)[:30]}', nontrivial=False)
                            continue
                    else:
                        ok, why = False, f'`{src(v)[:40]}` of unknown shape'
                    ctx.emit('C02-R7', ok, rel, r, f'{q}: returns {why}' + ('' if ok else ' -> the loader iterates the result as a list of records'), key=f'{q}:return-shape:{src(v)[:30]}', nontrivial=False,
                             what=f'{q}: a return path hands back a single record instead of the list')
    ctx.need('C02-R7', n, 15, 'returns of demultiplex overrides')


@rule('C02', 'C02-R8', 'the resolved layout of every registered strategy equals the pinned reference table (confirmed by hand from the strategy '
                       'descriptions); tags record the raw barcode / corrected barcode / index / UMI from the right values')
def r8(ctx):
    objs = resolve_all(ctx)
    cur = {}
    for cls, node, o, err in objs:
        if o is None:
            continue
        parts = [(cls, o)] if ('sequenceCapture' in o or 'capture_slices' in o) else [(f'{cls}.{k}', v) for k, v in sorted(o.items()) if isinstance(v, Obj)]
        for pname, po in parts:
            res = layout_of(ctx, po.cls, po)
            if res is None:
                continue
            lay, cap = res
            d = fmt_layout(lay, cap)
            d['shortName'] = po.get('shortName')
            d['alias'] = po.get('barcodeFileAlias') if po.get('barcodeFileAlias') is not TOP else None
            cur[pname] = d
    if os.environ.get('SCMO_PIN_LAYOUTS') == '1':
        with open(PINNED, 'w') as h:
            json.dump(cur, h, indent=1, sort_keys=True)
    if not os.path.exists(PINNED):
        raise AnalysisError('pinned layout table sa/rules/C02_layouts.json missing')
    with open(PINNED) as h:
        pinned = json.load(h)
    regnode = {cls: node for cls, node, o, err in objs}
    for pname, d in sorted(cur.items()):
        node = regnode.get(pname.split('.')[0])
        if pname not in pinned:
            ctx.info(f'unpinned strategy layout {pname}: {d} (new strategy: not compared)')
            continue
        ok = pinned[pname] == d
        diff = {k: (pinned[pname].get(k), d.get(k)) for k in set(d) | set(pinned[pname]) if pinned[pname].get(k) != d.get(k)}
        ctx.emit('C02-R8', ok, LOADER, node, f'{pname}: {d["m0"]} | {d["m1"]}' + ('' if ok else f' differs from the reference table: {diff}'), key=f'{pname}:reference-layout',
                 what=f'{pname}: layout differs from the reference table')
    gone = [p_ for p_ in pinned if p_ not in cur]
    ctx.emit('C02-R8', not gone, LOADER, None, 'every pinned strategy is still registered and resolvable' if not gone else f'pinned strategies no longer resolved: {gone}', key='pinned-present', nontrivial=False)
    provenance(ctx, 'C02-R8')


def provenance(ctx, rid='C02-R8'):
    """raw / corrected barcode and UMI tags are written from the values cut for that role (shared with C04)"""
    # tag provenance in the two base classes
    for q in ('UmiBarcodeDemuxMethod.demultiplex', 'ScatteredUmiBarcodeDemuxMethod.demultiplex'):
        f = ctx.fn(BASEDEMUX, q)
        defs = {}
        for s_ in walk_no_nested(f):
            if isinstance(s_, ast.Assign) and len(s_.targets) == 1:
                t_ = s_.targets[0]
                if isinstance(t_, ast.Name):
                    defs.setdefault(t_.id, []).append(s_.value)
                elif isinstance(t_, ast.Tuple) and isinstance(s_.value, ast.Tuple) and len(t_.elts) == len(s_.value.elts):
                    for a_, v_ in zip(t_.elts, s_.value.elts):
                        if isinstance(a_, ast.Name):
                            defs.setdefault(a_.id, []).append(v_)

        appends = {}
        modp = ctx.ix.module(BASEDEMUX)
        for c_ in walk_no_nested(f):
            if isinstance(c_, ast.Call) and isinstance(c_.func, ast.Attribute) and c_.func.attr in ('append', 'extend') and isinstance(c_.func.value, ast.Name) and c_.args:
                # what is appended, plus the iterables of the loops around the append (they define its loop variables)
                encl = []
                p_ = modp.parent.get(c_)
                while p_ is not None and p_ is not f:
                    if isinstance(p_, ast.For):
                        encl.append(p_.iter)
                    p_ = modp.parent.get(p_)
                appends.setdefault(c_.func.value.id, []).extend([c_.args[0]] + encl)

        def contributions(name, depth=0, seen=None):
            """every expression that flows into the local: its definitions and what is appended to it (with the iterables of the enclosing loops)"""
            seen = seen if seen is not None else set()
            if name in seen or depth > 5:
                return []
            seen.add(name)
            out = list(defs.get(name, [])) + list(appends.get(name, []))
            for e_ in list(out):
                for n_ in ast.walk(e_):
                    if isinstance(n_, ast.Name) and n_.id != name and (n_.id in defs or n_.id in appends):
                        out.extend(contributions(n_.id, depth + 1, seen))
            return out

        def kind_of(name):
            """(field, role attrs) a local was cut from: field in {'sequence','qual'}"""
            exprs = contributions(name)
            if not exprs:
                return set()
            t_ = ' ; '.join(src(v_) for v_ in exprs)
            is_seq = '.sequence[' in t_ or 'apply_slices_seq' in t_
            is_qual = '.qual[' in t_ or 'apply_slices_qual' in t_
            fld = 'sequence' if is_seq and not is_qual else ('qual' if is_qual and not is_seq else ('mixed' if is_seq and is_qual else None))
            attrs = {x.attr for v_ in exprs for x in ast.walk(v_) if isinstance(x, ast.Attribute) and isinstance(x.value, ast.Name) and x.value.id == 'self'}
            role = 'barcode' if attrs and all(a_.lower().startswith('barcode') for a_ in attrs) else ('umi' if attrs and all(a_.lower().startswith('umi') for a_ in attrs) else None)
            return {(fld, role)}
        def kind_of_expr(e):
            """like kind_of for an arbitrary expression: the expression itself plus everything that flows into the locals it mentions"""
            if isinstance(e, ast.Name):
                return kind_of(e.id)
            exprs = [e]
            for n_ in ast.walk(e):
                if isinstance(n_, ast.Name) and (n_.id in defs or n_.id in appends):
                    exprs.extend(contributions(n_.id))
            t_ = ' ; '.join(src(v_) for v_ in exprs)
            is_seq = '.sequence[' in t_ or 'apply_slices_seq' in t_
            is_qual = '.qual[' in t_ or 'apply_slices_qual' in t_
            fld = 'sequence' if is_seq and not is_qual else ('qual' if is_qual and not is_seq else ('mixed' if is_seq and is_qual else None))
            attrs = {x.attr for v_ in exprs for x in ast.walk(v_) if isinstance(x, ast.Attribute) and isinstance(x.value, ast.Name) and x.value.id == 'self'}
            role = 'barcode' if attrs and all(a_.lower().startswith('barcode') for a_ in attrs) else ('umi' if attrs and all(a_.lower().startswith('umi') for a_ in attrs) else None)
            return {(fld, role)}

        # tag stores of the method, however they are written: X.tags[K] = V, X.addTagByTag(K, V), X.tags.update({K: V}), or a dictionary that
        # is filled (D = {K: V}, D[K] = V, D.update({K: V})) and handed to X.tags.update(D)
        stores = {}
        tag_dicts = {src(c.args[0]) for c in walk_no_nested(f) if isinstance(c, ast.Call) and isinstance(c.func, ast.Attribute) and c.func.attr == 'update'
                     and src(c.func.value).endswith('.tags') and c.args and isinstance(c.args[0], ast.Name)}

        def is_tag_target(e):
            return src(e).endswith('.tags') or src(e) in tag_dicts
        for n_ in walk_no_nested(f):
            if isinstance(n_, ast.Assign):
                for t_ in n_.targets:
                    if isinstance(t_, ast.Subscript) and is_tag_target(t_.value) and isinstance(t_.slice, ast.Constant):
                        stores.setdefault(t_.slice.value, []).append((n_.value, n_))
                    if isinstance(t_, ast.Name) and t_.id in tag_dicts and isinstance(n_.value, ast.Dict):
                        for k_, v_ in zip(n_.value.keys, n_.value.values):
                            if isinstance(k_, ast.Constant):
                                stores.setdefault(k_.value, []).append((v_, n_))
            elif isinstance(n_, ast.Call) and isinstance(n_.func, ast.Attribute):
                if n_.func.attr == 'addTagByTag' and len(n_.args) >= 2 and isinstance(n_.args[0], ast.Constant):
                    stores.setdefault(n_.args[0].value, []).append((n_.args[1], n_))
                elif n_.func.attr == 'update' and is_tag_target(n_.func.value) and n_.args and isinstance(n_.args[0], ast.Dict):
                    for k_, v_ in zip(n_.args[0].keys, n_.args[0].values):
                        if isinstance(k_, ast.Constant):
                            stores.setdefault(k_.value, []).append((v_, n_))
        res = [s_ for s_ in walk_no_nested(f) if isinstance(s_, ast.Assign) and isinstance(s_.targets[0], ast.Tuple) and 'getIndexCorrectedBarcodeAndHammingDistance' in src(s_.value)]
        ok = False
        detail = 'barcode tag stores not found'
        und = True
        anchor = f
        if len(res) == 1 and all(len(stores.get(k_, [])) == 1 for k_ in ('bc', 'BC', 'bi', 'MX')):
            und = False
            idn, corr, _hd = [e.id for e in res[0].targets[0].elts]
            call = res[0].value
            kw = {k.arg: src(k.value) for k in call.keywords}
            mp = {k_: src(stores[k_][0][0]) for k_ in ('bc', 'BC', 'bi', 'MX')}
            anchor = stores['bc'][0][1]
            rawname = kw.get('barcode')
            raw_from_seq = kind_of(rawname) == {('sequence', 'barcode')}
            ok = mp.get('bc') == rawname and mp.get('BC') == corr and mp.get('bi') == idn and mp.get('MX') == 'self.shortName' and raw_from_seq
            detail = f'bc <- {mp.get("bc")} (raw: {sorted(kind_of(rawname), key=str)}), BC <- {mp.get("BC")} (corrected), bi <- {mp.get("bi")}, MX <- {mp.get("MX")}; whitelist queried with {rawname}'
        ctx.emit(rid, ok, BASEDEMUX, anchor, f'{q}: {detail}', key=f'{q}:tag-provenance', undecided=und and not ok, what=f'{q}: a barcode tag records the wrong value (raw vs corrected)')
        rx, rq = stores.get('RX', []), stores.get('RQ', [])

        def strip_encoder(e):
            # the qualities may be stored through the header-safe encoder
            if isinstance(e, ast.Call) and (dotted(e.func) or '').endswith('phredToFastqHeaderSafeQualities') and e.args:
                return e.args[0]
            return e
        found = len(rx) == 1 and len(rq) == 1
        okx = found and kind_of_expr(rx[0][0]) == {('sequence', 'umi')} and kind_of_expr(strip_encoder(rq[0][0])) == {('qual', 'umi')}
        ctx.emit(rid, okx, BASEDEMUX, rx[0][1] if rx else f, f'{q}: RX <- {src(rx[0][0]) if rx else None} {sorted(kind_of_expr(rx[0][0])) if rx else ""}, '
                 f'RQ <- {src(rq[0][0]) if rq else None} {sorted(kind_of_expr(strip_encoder(rq[0][0]))) if rq else ""}', key=f'{q}:umi-tags', nontrivial=False, undecided=not found)




@rule('C02', 'C02-R9', 'which mate a sequence element sits on is an index 0 / 1 (or None when absent): such an index is never used as a truth value - mate 0 '
                       '(read 1) is falsy, a test `if self.x_read:` silently treats "on read 1" as "absent"')
def r9(ctx):
    files = [BASEDEMUX] + [p for p in ctx.ix.pyfiles() if p.startswith(DEMUXMODS)]
    # the index attributes: self.<name> assigned in a constructor from a parameter whose name says "read" and whose default is an int or None
    idx_attrs = set()
    for rel in files:
        m = ctx.ix.module(rel)
        for fdef in [x for x in ast.walk(m.tree) if isinstance(x, ast.FunctionDef) and x.name == '__init__']:
            params = {a_.arg for a_ in fdef.args.args + fdef.args.kwonlyargs if 'read' in a_.arg.lower()}
            for s_ in walk_no_nested(fdef):
                if isinstance(s_, ast.Assign) and isinstance(s_.value, ast.Name) and s_.value.id in params:
                    for t_ in s_.targets:
                        if isinstance(t_, ast.Attribute) and isinstance(t_.value, ast.Name) and t_.value.id == 'self':
                            idx_attrs.add(t_.attr)
    ctx.need('C02-R9', len(idx_attrs), 2, 'mate-index attributes')
    bad = []
    n = 0

    def boolctx(e, where, rel, out):
        if isinstance(e, ast.Attribute) and isinstance(e.value, ast.Name) and e.value.id == 'self' and e.attr in idx_attrs:
            out.append((rel, e, where))
        elif isinstance(e, ast.UnaryOp) and isinstance(e.op, ast.Not):
            boolctx(e.operand, where, rel, out)
        elif isinstance(e, ast.BoolOp):
            for v in e.values:
                boolctx(v, where, rel, out)
    for rel in files:
        m = ctx.ix.module(rel)
        for node in ast.walk(m.tree):
            if isinstance(node, (ast.If, ast.While)):
                n += 1
                boolctx(node.test, 'an if / while test', rel, bad)
            elif isinstance(node, ast.IfExp):
                n += 1
                boolctx(node.test, 'a conditional expression', rel, bad)
            elif isinstance(node, ast.comprehension):
                for t_ in node.ifs:
                    boolctx(t_, 'a comprehension filter', rel, bad)
            elif isinstance(node, ast.BoolOp):
                for v in node.values[:-1]:
                    if isinstance(v, ast.Attribute) and isinstance(v.value, ast.Name) and v.value.id == 'self' and v.attr in idx_attrs and isinstance(node.op, ast.Or):
                        bad.append((rel, v, '`x or default`'))
    seen = set()
    for rel, e, where in bad:
        if id(e) in seen:
            continue
        seen.add(id(e))
        ctx.emit('C02-R9', False, rel, e, f'mate index `{src(e)}` is used as a truth value in {where}: index 0 (read 1) counts as "not present", the element is then neither cut nor recorded',
                 key=f'mate-index-truthiness:{src(e)}', what='a mate index is tested for truth instead of `is None`')
    if not bad:
        ctx.emit('C02-R9', True, BASEDEMUX, None, f'mate indices {sorted(idx_attrs)} are compared with None, never tested for truth ({n} tests inspected)', key='mate-index-truthiness')


@rule('C02', 'C02-R12', 'a cut whose position is read off the bases (the poly-T prune of the transcriptome reads: `r.sequence = r.sequence[pos:]` with pos found by scanning the read) '
                        'is applied only to records of the sub-strategy it belongs to: in the combined DamID + transcriptome strategies the pruned record comes from '
                        '`self.transcriptome_demux.demultiplex(..)`, never from the DamID sub-strategy (its insert starts at the layout position, leading T bases are insert)')
def r12(ctx):
    n = 0
    for rel in [p for p in ctx.ix.pyfiles() if p.startswith(DEMUXMODS)]:
        m = ctx.ix.module(rel)
        for q, ds in m.defs.items():
            for f in ds:
                if not isinstance(f, ast.FunctionDef) or 'transcriptome_demux' not in src(m.tree):
                    continue
                if q in {h_.split(':')[-1] for _c, h_, _how in (getattr(m, 'inlined', None) or [])}:
                    continue            # a helper whose body is analysed inside every function that calls it
                defs = {}
                for a in walk_no_nested(f):
                    if isinstance(a, ast.Assign) and len(a.targets) == 1 and isinstance(a.targets[0], ast.Name):
                        defs.setdefault(a.targets[0].id, []).append(a.value)

                def origin(e, depth=0):
                    """the sub-strategies whose demultiplex() result the record expression can denote"""
                    if depth > 6:
                        return {'?'}
                    if isinstance(e, ast.Subscript):
                        return origin(e.value, depth + 1)
                    if isinstance(e, ast.Call) and isinstance(e.func, ast.Attribute) and e.func.attr == 'demultiplex':
                        recv = e.func.value
                        params = [a_.arg for a_ in f.args.args]
                        if isinstance(recv, ast.Name) and recv.id in params and recv.id != 'self':
                            # the sub-strategy is a parameter of a helper: every value the callers in this module hand over
                            got = set()
                            k = params.index(recv.id) - (1 if params and params[0] == 'self' else 0)
                            for c_ in ast.walk(m.tree):
                                if isinstance(c_, ast.Call) and isinstance(c_.func, ast.Attribute) and c_.func.attr == f.name and src(c_.func.value) == 'self':
                                    a_ = c_.args[k] if k < len(c_.args) else next((kw.value for kw in c_.keywords if kw.arg == recv.id), None)
                                    got.add(src(a_) if a_ is not None else '?')
                            return got or {'?'}
                        return {src(recv)}
                    if isinstance(e, ast.Name) and e.id in defs:
                        out = set()
                        for v in defs[e.id]:
                            if isinstance(v, ast.Constant) and v.value is None:
                                continue
                            out |= origin(v, depth + 1)
                        return out
                    return {'?'}
                for st in walk_no_nested(f):
                    if isinstance(st, ast.Assign) and len(st.targets) == 1 and isinstance(st.targets[0], ast.Attribute) and st.targets[0].attr == 'sequence' \
                            and isinstance(st.value, ast.Subscript) and isinstance(st.value.slice, ast.Slice) and isinstance(st.value.slice.lower, ast.Name) and st.value.slice.upper is None:
                        n += 1
                        src_ = origin(st.targets[0].value)
                        if src_ == {'self.transcriptome_demux'}:
                            ctx.emit('C02-R12', True, rel, st, f'{q}: the scanned prune `{src(st)}` applies to the records of self.transcriptome_demux', key=f'{q}:prune-owner:{sorted(src_)}')
                        elif 'self.damid_demux' in src_:
                            ctx.emit('C02-R12', False, rel, st, f'{q}: the scanned prune `{src(st)}` is applied to records of {sorted(src_)}: leading T bases of a DamID insert are cut off the emitted read and '
                                     f'recorded nowhere', key=f'{q}:prune-owner:{sorted(src_)}', what=f'{q}: the poly-T prune of the transcriptome reads is applied to DamID records')
                        else:
                            ctx.emit('C02-R12', False, rel, st, f'{q}: cannot tell which sub-strategy the pruned record `{src(st.targets[0].value)}` comes from ({sorted(src_)})', key=f'{q}:prune-owner', undecided=True)
    ctx.need('C02-R12', n, 1, 'scanned prunes in the combined strategies')


@rule('C02', 'C02-R13', 'what a read is tagged with comes from that read: a demultiplex method that keeps a table on the strategy instance and reads it back in later calls (a per-cell cache) '
                        'stores only values that the key determines - a value cut from the current read (the raw barcode, the UMI ...) under a coarser key is handed to every later read of that key')
def r13(ctx):
    n = 0
    for rel in [BASEDEMUX] + [p_ for p_ in ctx.ix.pyfiles() if p_.startswith(DEMUXMODS)]:
        m = ctx.ix.module(rel)
        for q, ds in m.defs.items():
            f = ds[-1]
            if not (isinstance(f, ast.FunctionDef) and q.endswith('.demultiplex') and f.args.args and f.args.args[0].arg == 'self'):
                continue
            n += 1
            # stores into a table of the instance: self.T[k] = v   /   x = self.T[k] = v   /   self.T.setdefault(k, v)
            stores = []
            for st in walk_no_nested(f):
                if isinstance(st, ast.Assign):
                    for t in st.targets:
                        if isinstance(t, ast.Subscript) and isinstance(t.value, ast.Attribute) and src(t.value.value) == 'self':
                            stores.append((t.value.attr, t.slice, st.value, st))
                elif isinstance(st, ast.Expr) and isinstance(st.value, ast.Call) and isinstance(st.value.func, ast.Attribute) and st.value.func.attr == 'setdefault' \
                        and isinstance(st.value.func.value, ast.Attribute) and src(st.value.func.value.value) == 'self' and len(st.value.args) == 2:
                    stores.append((st.value.func.value.attr, st.value.args[0], st.value.args[1], st))
            if not stores:
                continue
            params = {a.arg for a in f.args.args[1:]}
            # locals derived from the records handed to this call
            derived = set(params)
            grew = True
            while grew:
                grew = False
                for st in walk_no_nested(f):
                    if isinstance(st, ast.Assign) and names_in(st.value) & derived:
                        for t in st.targets:
                            for x in ast.walk(t):
                                if isinstance(x, ast.Name) and x.id not in derived:
                                    derived.add(x.id)
                                    grew = True
            for attr, key, val, st in stores:
                read_back = [x for x in walk_no_nested(f) if isinstance(x, ast.Attribute) and x.attr == attr and src(x.value) == 'self' and isinstance(x.ctx, ast.Load)
                             and not any(y is x for y in ast.walk(st))]
                if not read_back:
                    continue
                knames = names_in(key)
                # determined by the key: the key names, and locals computed from them and from the configuration only
                det = set(knames)
                grew = True
                while grew:
                    grew = False
                    for a_ in walk_no_nested(f):
                        if isinstance(a_, ast.Assign) and a_ is not st and (names_in(a_.value) & derived) and (names_in(a_.value) & derived) <= det:
                            for t in a_.targets:
                                for x in ast.walk(t):
                                    if isinstance(x, ast.Name) and x.id not in det:
                                        det.add(x.id)
                                        grew = True
                loose = sorted((names_in(val) & derived) - det - {'self'}, key=lambda x_: (x_ not in names_in(val), x_.lower() != x_, x_))
                ctx.emit('C02-R13', not loose, rel, st, f'{q}: the table self.{attr} is keyed by `{src(key)}` and holds values the key determines' if not loose else
                         f'{q}: self.{attr}[{src(key)}] keeps {loose}, cut from the read pair that created the entry, and later read pairs with the same `{src(key)}` are tagged from the table: '
                         f'they carry the {loose[0]} of another read', key=f'{q}:instance-table:{attr}',
                         witness={'read pairs': [f'first pair of a {src(key)}', f'second pair of the same {src(key)} with a different {loose[0]}'], 'tagged with': f'{loose[0]} of the first pair'} if loose else None,
                         what=f'{q}: per-read values are cached on the strategy instance under a coarser key')
    ctx.need('C02-R13', n, 5, 'demultiplex methods inspected')
    if not any(o.rule == 'C02-R13' for o in ctx.obligations):
        ctx.emit('C02-R13', True, BASEDEMUX, None, f'{n} demultiplex methods: none keeps a table on the strategy instance that a later call reads back', key='instance-tables')


META = {
    'text': ('Decides, for each registered strategy class, properties of the layout table obtained by constant propagation through its constructor '
             'chain (incl. composite strategies and post-init capture adjustments): sequence and quality are cut with identical slices in every demultiplex '
             'method; on each mate the tag intervals cover every base before the emitted stretch; UMI / barcode / random primer do not overlap and the '
             'emitted stretch does not start inside the UMI; role names agree (mate, start, length); barcode length equals the whitelist\'s; registered '
             'names resolve to a single definition; every demultiplex return is a list; the resolved layouts equal a pinned reference table; bc / BC / bi / '
             'RX / RQ are recorded from the raw cut, the corrected barcode, the index and the UMI. Does NOT decide data-dependent trimming beyond '
             'seq/qual alignment of the trim, nor that the pinned protocol constants are biochemically right.'),
    'technique': 'static analysis: constant propagation / partial evaluation of constructor chains into per-strategy layout tables, interval coverage and disjointness checks, slice-twin comparison, reference-table comparison; provenance of scanned prunes through helper parameters (C02-R12); def-use of per-read values into tables kept on the strategy instance (C02-R13)',
    'design_ref': 'DESIGN.md section 5, C02 and Appendix A',
    'note': 'The reference layout table sa/rules/C02_layouts.json was generated from the resolved constants and confirmed line by line against DESIGN.md Appendix A.',
}


@rule('C02', 'C02-R10', 'recorded qualities are the qualities at the layout positions: the header-safe quality encoding is total and invertible '
                        '(shared with C04-R1 / C01-R3), and a quality string handed to addTagByTag reaches the encoder unmodified - only a type cast, '
                        'never a cleaning function that removes characters (RQ would be shorter than RX)')
def r10(ctx):
    from ..core import include
    from ..util import explore, mk_atoms
    from . import C04
    include(ctx, C04, [C04.r1], 'C02-R10')
    f = ctx.fn(BASEDEMUX, 'TaggedRecord.addTagByTag')
    vp = f.args.args[2].arg if len(f.args.args) > 2 else 'value'
    enc = ('phredToFastqHeaderSafeQualities', 'fastqHeaderSafeQualitiesToPhred')

    def mark(node):
        a = node.ast
        if node.kind == 'stmt' and isinstance(a, (ast.Assign, ast.AugAssign)):
            tg = a.targets if isinstance(a, ast.Assign) else [a.target]
            if any(isinstance(t, ast.Name) and t.id == vp for t in tg):
                return 'rebind:' + src(a.value)
        return None
    # the paths on which the value is a quality string: isPhred holds (given, or looked up in the tag definitions)
    php = f.args.args[3].arg if len(f.args.args) > 3 else 'isPhred'
    rs = explore(f.body, mk_atoms({php: True, f'{php} is None': False, f'{php} is not None': True}), names=None, mark=mark, env0={php: True})
    npaths, bad = 0, []
    for r in rs:
        hist = []
        for t, v, k in r['stores']:
            if k == 'Mark' and v.startswith('rebind:'):
                hist.append(v[len('rebind:'):])
            elif t.startswith('self.tags['):
                npaths += 1
                for h in hist:
                    he = ast.parse(h, mode='eval').body
                    # allowed: <type>(value) with the type a parameter / builtin type name (a cast keeps every character of a string)
                    cast = isinstance(he, ast.Call) and len(he.args) == 1 and not he.keywords and src(he.args[0]) == vp and isinstance(he.func, ast.Name) and \
                        (he.func.id in ('str', 'bytes') or he.func.id in {a_.arg for a_ in f.args.args})
                    if not cast and len(bad) < 3:
                        bad.append((h, v))
                break
    ctx.need('C02-R10', npaths, 1, 'paths of addTagByTag that store a quality string')
    ctx.emit('C02-R10', not bad, BASEDEMUX, f, f'{npaths} paths store qualities: the string given is only type-cast before it is encoded' if not bad else
             f'the quality string is rewritten by `{vp} = {bad[0][0]}` before `{bad[0][1][:60]}`: characters outside the name-safe alphabet are removed, the recorded qualities no longer '
             f'line up with the recorded bases', key='qualities-encoded-unmodified', witness={'rebinding': bad[0][0], 'store': bad[0][1]} if bad else None,
             what='addTagByTag: a quality string is cleaned before it is phred-encoded')


@rule('C02', 'C02-R11', 'the tag table of a record belongs to that record: `<record>.tags` is only ever bound to a freshly built mapping - never to the result of a '
                        'memoised function, another record\'s table or a module / class level dictionary (tags of one pass would show up in the record of another)')
def r11(ctx):
    files = [BASEDEMUX] + [p for p in ctx.ix.pyfiles() if p.startswith(DEMUXMODS)]
    FRESH_CALLS = {'dict', 'OrderedDict', 'defaultdict', 'Counter', 'copy', 'deepcopy'}
    n = 0
    bad, unsure = [], []
    for rel in files:
        m = ctx.ix.module(rel)
        module_level = {t.id for st in m.tree.body if isinstance(st, ast.Assign) for t in st.targets if isinstance(t, ast.Name)}
        cached = {fd.name for fd in ast.walk(m.tree) if isinstance(fd, ast.FunctionDef) and any('cache' in (src(d) or '') for d in fd.decorator_list)}
        for fdef in [x for x in ast.walk(m.tree) if isinstance(x, (ast.FunctionDef, ast.AsyncFunctionDef))]:
            params = {a_.arg for a_ in fdef.args.args + fdef.args.kwonlyargs}
            for st in walk_no_nested(fdef):
                if not isinstance(st, ast.Assign):
                    continue
                for tg in st.targets:
                    elts = tg.elts if isinstance(tg, (ast.Tuple, ast.List)) else [tg]
                    for k, t in enumerate(elts):
                        if not (isinstance(t, ast.Attribute) and t.attr == 'tags'):
                            continue
                        n += 1
                        v = st.value
                        if isinstance(tg, (ast.Tuple, ast.List)) and isinstance(v, (ast.Tuple, ast.List)) and len(v.elts) == len(elts):
                            v = v.elts[k]
                        if isinstance(v, ast.Name):
                            ds = [a_.value for a_ in walk_no_nested(fdef) if isinstance(a_, ast.Assign) and len(a_.targets) == 1 and src(a_.targets[0]) == v.id]
                            if len(ds) == 1:
                                v = ds[0]
                        if isinstance(v, (ast.Dict, ast.DictComp)):
                            continue
                        if isinstance(v, ast.Call):
                            fn = last_name_of(v.func)
                            if fn in cached:
                                bad.append((rel, st, f'`{src(st)[:70]}`: {fn}() is memoised, every record built from equal arguments shares ONE table - tags written for one record appear in the others'))
                                continue
                            if fn in FRESH_CALLS:
                                continue
                        if isinstance(v, ast.Attribute) and v.attr == 'tags':
                            bad.append((rel, st, f'`{src(st)[:70]}`: the table of another record is shared, not copied'))
                            continue
                        if isinstance(v, ast.Name) and (v.id in module_level and v.id not in params):
                            bad.append((rel, st, f'`{src(st)[:70]}`: a module level dictionary is shared by all records'))
                            continue
                        unsure.append((rel, st))
    ctx.need('C02-R11', n, 1, 'bindings of a record tag table')
    for rel, st, msg in bad:
        ctx.emit('C02-R11', False, rel, st, msg, key='tag-table-owned', what='TaggedRecord.tags is shared between records')
    for rel, st in unsure:
        ctx.emit('C02-R11', False, rel, st, f'`{src(st)[:70]}`: cannot tell whether the bound mapping is fresh', key='tag-table-owned', undecided=True)
    if not bad and not unsure:
        ctx.emit('C02-R11', True, BASEDEMUX, None, f'{n} binding(s) of a record tag table, all to a freshly built mapping', key='tag-table-owned')


def last_name_of(e):
    d = dotted(e) or ''
    return d.split('.')[-1]


from . import shared as _shared
_shared.register('C02', 'C02')
