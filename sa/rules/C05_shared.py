"""Rules shared between C05 (record conservation) and C20 (status marker): finalisation order of the writer context."""
import ast

from ..index import AnalysisError, dotted, src, walk_no_nested, names_in
from ..cfg import CFG
from ..util import node_call_names, last_name, own_expr, func_cfg, skip_zero_iterations
from .slots import BAMFUNC


def path_calls(cfg, path):
    out = []
    for nid, label in path:
        n = cfg.nodes[nid]
        for x in node_call_names(n):
            if x:
                out.append((x, n, label))
    return out


def find_yield_nodes(cfg):
    out = []
    for n in cfg.nodes:
        e = own_expr(n)
        if e is not None and n.kind == 'stmt' and any(isinstance(x, (ast.Yield, ast.YieldFrom)) for x in walk_no_nested(e)):
            out.append(n.id)
    return out


def writer_finalisation(ctx, rid):
    ix = ctx.ix
    # ---- sorted_bam_file -----------------------------------------------------------------
    f = ctx.fn(BAMFUNC, 'sorted_bam_file')
    cfg = func_cfg(ix, f, exceptions=False)
    ys = find_yield_nodes(cfg)
    if len(ys) != 1:
        raise AnalysisError(f'sorted_bam_file: expected exactly one yield, found {len(ys)}')
    # the yield is not protected by try/finally: an exception in the with-body skips finalisation (that is what C20-R1 relies on)
    paths = cfg.paths(start=ys[0])
    ctx.counters['paths_enumerated'] += len(paths)
    rg_param = 'read_groups'
    n_ok = 0
    for p, _ in paths:
        term = cfg.nodes[p[-1][0]].info
        if term != 'fall' and term != 'return':
            continue
        calls = path_calls(cfg, p)
        names = [last_name(c[0]) for c in calls]
        full = [c[0] for c in calls]
        problems = []
        if 'close' not in names:
            problems.append('handle is not closed')
        fin = [i for i, x in enumerate(full) if last_name(x) == 'sort_and_index' or x in ('pysam.index',)]
        if not fin:
            problems.append('neither sort_and_index nor pysam.index is called')
        if 'close' in names and fin and names.index('close') > fin[0]:
            problems.append('close after sort/index')
        if 'add_readgroups_to_header' in names:
            i = names.index('add_readgroups_to_header')
            if 'close' in names and i < names.index('close'):
                problems.append('read groups added before close')
            if fin and i > fin[0]:
                problems.append('read groups added after sort/index (index would be stale)')
        else:
            # allowed only when the path took the false branch of a test on the read_groups parameter
            skipped = any(cfg.nodes[nid].kind == 'test' and rg_param in names_in(cfg.nodes[nid].ast.test) and label == 'false'
                          for nid, label in p)
            if not skipped:
                problems.append('read groups are not written to the header although requested')
        if 'rename' in names:
            if 'pysam.index' not in full or full.index('pysam.index') < names.index('rename'):
                problems.append('index before rename / missing after rename')
        ctx.emit(rid, not problems, BAMFUNC, cfg.nodes[ys[0]].ast,
                 'sorted_bam_file exit path [' + ' -> '.join(names) + ']: ' + ('; '.join(problems) if problems else 'close -> header -> sort/index order holds'),
                 key='sorted_bam_file:exit-path:' + '>'.join(names))
        n_ok += 1
    ctx.need(rid, n_ok, 2, 'normal exit paths of sorted_bam_file')
    # the yield must not be inside try/finally that would run the finalisation after a failure in the body
    m = ix.module(BAMFUNC)
    ynode = cfg.nodes[ys[0]].ast
    p = m.parent.get(ynode)
    in_finally = False
    while p is not None and p is not f:
        if isinstance(p, ast.Try) and (p.finalbody or p.handlers):
            in_finally = True
        p = m.parent.get(p)
    # a failure inside the with-body must propagate: the generator must not catch-and-return (that would suppress the exception
    # and let the caller run on to its success marker), nor finalise (sort/index) a partial file as if it were complete
    swallow = []
    p = m.parent.get(ynode)
    child = ynode
    while p is not None and p is not f:
        if isinstance(p, ast.Try) and any(any(x is child for x in ast.walk(b)) for b in p.body):
            for h in p.handlers:
                hcfg = CFG(h.body, exceptions=False)
                ends = {hcfg.nodes[pp[-1][0]].info for pp, _ in hcfg.paths()}
                if ends - {'raise'}:
                    swallow.append((h, sorted(ends)))
        child = p
        p = m.parent.get(p)
    ctx.emit(rid, not swallow, BAMFUNC, swallow[0][0] if swallow else ynode,
             'sorted_bam_file: ' + ('an exception raised in the with-body is caught by the context manager and not re-raised '
                                    f'(handler ends in {swallow[0][1]}): the failure is suppressed and the caller continues to its success marker' if swallow else
                                    'exceptions raised in the with-body propagate to the caller (no swallowing handler around the yield)'),
             key='sorted_bam_file:body-failure-propagates', what='sorted_bam_file suppresses exceptions raised inside the with-body')

    # ---- sort_and_index ------------------------------------------------------------------
    f = ctx.fn(BAMFUNC, 'sort_and_index')
    cfg = func_cfg(ix, f, exceptions=False)
    paths = cfg.paths(step=skip_zero_iterations(f))
    ctx.counters['paths_enumerated'] += len(paths)
    bad = []
    n = 0
    for p, _ in paths:
        if cfg.nodes[p[-1][0]].info not in ('fall', 'return'):
            continue
        n += 1
        full = [c[0] for c in path_calls(cfg, p)]
        if 'pysam.sort' not in full or 'pysam.index' not in full or full.index('pysam.sort') > len(full) - 1 - full[::-1].index('pysam.index'):
            bad.append(full)
    ctx.emit(rid, not bad and n > 0, BAMFUNC, f, f'sort_and_index: {n} normal paths, ' +
             ('all sort then index' if not bad else f'paths without sort->index: {bad[:2]}'), key='sort_and_index:sort-then-index')
    # handlers around the sort: must re-raise on the last attempt
    n_h = 0
    for t in [x for x in walk_no_nested(f) if isinstance(x, ast.Try)]:
        if not any(dotted(c.func) == 'pysam.sort' for b in t.body for c in walk_no_nested(b) if isinstance(c, ast.Call)):
            continue
        # enclosing for over enumerate(L)
        loop = None
        q = m.parent.get(t)
        while q is not None and q is not f:
            if isinstance(q, ast.For):
                loop = q
                break
            q = m.parent.get(q)
        for h in t.handlers:
            n_h += 1
            hcfg = CFG(h.body, exceptions=False)
            ok = True
            why = ''
            for p, _ in hcfg.paths():
                term = hcfg.nodes[p[-1][0]].info
                if term == 'raise':
                    continue
                # non-raising path: must have taken the false edge of an is-last-attempt test
                took = False
                for nid, label in p:
                    nn = hcfg.nodes[nid]
                    if nn.kind == 'test' and label == 'false' and loop is not None and is_last_iteration_test(nn.ast.test, loop):
                        took = True
                if not took:
                    ok = False
                    why = 'a handler path swallows the sort failure without an is-last-attempt test'
            ctx.emit(rid, ok, BAMFUNC, h, 'sort retry handler ' + ('re-raises when the last attempt failed' if ok else why),
                     key='sort_and_index:retry-handler')
    ctx.need(rid, n_h, 1, 'exception handlers around pysam.sort')

    # ---- merge_bams ----------------------------------------------------------------------
    f = ctx.fn(BAMFUNC, 'merge_bams')
    # feasible paths (constants assigned on the path are followed: a flag initialised False stays False until it is reassigned)
    from ..util import explore
    from ..cfg import UNK
    rs = explore(f.body, lambda e: UNK)
    ctx.counters['paths_enumerated'] += len(rs)
    n = 0
    bad = []
    for r in rs:
        if r['kind'] not in ('fall', 'return'):
            continue
        n += 1
        full = [c.split('(')[0] for c in r['calls']]
        indexed = 'pysam.index' in full
        moved_index = any(c.split('(')[0].split('.')[-1] == 'move' and c.count('.bai') >= 2 for c in r['calls'])
        merged = any(last_name(x) == 'merge' or (x == 'os.system') for x in full) or any(last_name(x) == 'move' for x in full)
        if not (merged and (indexed or moved_index)):
            bad.append(full)
        if indexed and any(last_name(x) == 'merge' or x == 'os.system' for x in full):
            li = len(full) - 1 - full[::-1].index('pysam.index')
            lm = max(i for i, x in enumerate(full) if last_name(x) == 'merge' or x == 'os.system')
            if li < lm:
                bad.append(full)
    ctx.emit(rid, not bad and n >= 2, BAMFUNC, f, f'merge_bams: {n} normal paths; ' +
             ('each produces the output and an index after it' if not bad else f'paths without index: {bad[:2]}'),
             key='merge_bams:index-on-all-arms')


def is_last_iteration_test(test, loop):
    """`i == len(L) - 1` where the loop is `for i, x in enumerate(L)`."""
    it = loop.iter
    if not (isinstance(it, ast.Call) and dotted(it.func) == 'enumerate' and it.args):
        return False
    L = src(it.args[0])
    tgt = loop.target
    if not (isinstance(tgt, ast.Tuple) and isinstance(tgt.elts[0], ast.Name)):
        return False
    i = tgt.elts[0].id
    if isinstance(test, ast.Compare) and len(test.ops) == 1 and isinstance(test.ops[0], (ast.Eq, ast.GtE)):
        l, r = src(test.left), src(test.comparators[0])
        want = {f'len({L}) - 1'}
        return (l == i and r in want) or (r == i and l in want and isinstance(test.ops[0], ast.Eq))
    return False
