"""C06 - molecule assignment vs duplicate structure: duplicate bit is a total function of the rank, tag provenance,
equality relations compare cell / strand / contig / site / UMI (structural clauses)."""
import ast

from ..core import rule, Ctx
from ..index import AnalysisError, dotted, src, walk_no_nested, names_in
from ..cfg import CFG
from ..domains import check_pred
from ..util import node_calls
from .slots import MOLECULE, FRAGMENT, FRAG_NLA, FRAG_CHIC


def _include(ctx, sub, from_rule, to_rule):
    for o in sub.obligations:
        if o.rule.startswith(from_rule.split('-')[0]):
            o.construct = o.construct.replace(o.rule, to_rule + ':' + o.rule)
            o.detail = f'[{o.rule}] ' + o.detail
            o.rule = to_rule
            ctx.obligations.append(o)
    for k, v in sub.counters.items():
        if isinstance(v, set):
            ctx.counters[k] |= v
        else:
            ctx.counters[k] += v
    ctx.notes.extend(sub.notes)


def _only_when_none(test, label, var):
    """the branch `label` of `test` is taken only when `var` is None (however the test is spelled)"""
    from ..util import mk_atoms
    from ..cfg import eval3, UNK
    if label not in ('true', 'false'):
        return False
    v_none = eval3(test, {}, mk_atoms({f'{var} is None': True}))
    v_some = eval3(test, {}, mk_atoms({f'{var} is None': False}))
    want = label == 'true'
    return v_none is not UNK and v_some is not UNK and bool(v_none) == want and bool(v_some) != want


@rule('C06', 'C06-R1', 'the duplicate bit written to the output is a total function of the fragment rank: every read of every fragment '
                       'is assigned `rank > 0` on every path (so flags carried by the input cannot survive)')
def r1(ctx):
    ix = ctx.ix
    f = ctx.fn(MOLECULE, 'Molecule.write_tags')
    loops = [l for l in f.body if isinstance(l, ast.For) and isinstance(l.iter, ast.Call) and dotted(l.iter.func) == 'enumerate' and src(l.iter.args[0]) == 'self'
             and isinstance(l.target, ast.Tuple)]
    if len(loops) != 1:
        raise AnalysisError('Molecule.write_tags: rank loop `for rc, frag in enumerate(self)` not found')
    l = loops[0]
    rc, frag = [e.id for e in l.target.elts]
    # resolve Fragment.set_duplicate(x): assigns x to every non-None read
    sd = ctx.fn(FRAGMENT, 'Fragment.set_duplicate')
    sd_total = False
    p = sd.args.args[1].arg
    for lp in [x for x in sd.body if isinstance(x, ast.For)]:
        if src(lp.iter) in ('self.reads', 'self') and isinstance(lp.target, ast.Name):
            rv = lp.target.id
            cfg = CFG(lp.body, exceptions=False)
            ok = True
            for pth, _ in cfg.paths():
                none_branch = any(cfg.nodes[n].kind == 'test' and _only_when_none(cfg.nodes[n].ast.test, lab, rv) for n, lab in pth)
                asg = any(cfg.nodes[n].kind == 'stmt' and isinstance(cfg.nodes[n].ast, ast.Assign) and src(cfg.nodes[n].ast) == f'{rv}.is_duplicate = {p}' for n, lab in pth)
                if not asg and not none_branch:
                    ok = False
            sd_total = ok
    # enumerate the paths of the rank loop body; collect (condition, value expression) of duplicate assignments
    cfg = CFG(l.body, exceptions=False)
    cases = []   # per path: list of value exprs assigned to all reads of the fragment
    for pth, _ in cfg.paths():
        if cfg.nodes[pth[-1][0]].info not in ('fall', 'continue'):
            continue
        conds = []
        vals = []
        for n, lab in pth:
            nn = cfg.nodes[n]
            if nn.kind == 'test':
                conds.append((nn.ast.test, lab == 'true'))
            if nn.kind == 'for' and isinstance(nn.ast.target, ast.Name) and src(nn.ast.iter) == frag and lab == 'true':
                # inner loop over the reads of the fragment: analyse its body separately
                rv = nn.ast.target.id
                icfg = CFG(nn.ast.body, exceptions=False)
                tot = True
                v = None
                for ip, _ in icfg.paths():
                    none_branch = any(icfg.nodes[k].kind == 'test' and _only_when_none(icfg.nodes[k].ast.test, lb, rv) for k, lb in ip)
                    a = [icfg.nodes[k].ast for k, lb in ip if icfg.nodes[k].kind == 'stmt' and isinstance(icfg.nodes[k].ast, ast.Assign)
                         and src(icfg.nodes[k].ast.targets[0]) == f'{rv}.is_duplicate']
                    if a:
                        v = a[-1].value
                    elif not none_branch:
                        tot = False
                if tot and v is not None:
                    vals.append(v)
            for c in node_calls(nn):
                if isinstance(c.func, ast.Attribute) and c.func.attr == 'set_duplicate' and src(c.func.value) == frag and c.args and sd_total:
                    vals.append(c.args[0])
        cases.append((conds, vals))
    ctx.counters['paths_enumerated'] += len(cases)
    # abstract ranks 0, 1, 2: on the paths feasible for that rank the assigned value must equal rank > 0
    problems = []
    for rank in (0, 1, 2):
        feasible = 0
        for conds, vals in cases:
            ok_path = True
            for t, pol in conds:
                if rc in names_in(t):
                    try:
                        from ..domains import eval_pred
                        if bool(eval_pred(t, {rc: rank})) != pol:
                            ok_path = False
                    except Exception:
                        pass
            if not ok_path:
                continue
            # paths through the inner read loop taken zero times are infeasible for a fragment with reads; require an assignment on paths that entered it
            if not vals:
                # does any other feasible path for this rank assign? a path without assignment means the flag is left as it was
                entered = True
                problems.append(f'rank {rank}: a path leaves the duplicate flag of the fragment untouched (input flag survives)') if entered else None
                feasible += 1
                continue
            feasible += 1
            from ..domains import eval_pred
            for v in vals[-1:]:
                try:
                    got = bool(eval_pred(v, {rc: rank}))
                except Exception:
                    problems.append(f'rank {rank}: assigned value `{src(v)}` is not a function of the rank')
                    continue
                if got != (rank > 0):
                    problems.append(f'rank {rank}: flag set to {got}, expected {rank > 0}')
    # the zero-iteration path of the inner read loop is infeasible (a fragment holds at least one read): drop those reports when some path assigns
    assigns = [vals for conds, vals in cases if vals]
    if assigns:
        problems = [p for p in problems if 'untouched' not in p] + \
            [p for p in problems if 'untouched' in p and _untouched_is_real(cases, rc)]
    ctx.emit('C06-R1', not problems and bool(assigns), MOLECULE, l, 'duplicate flag: ' + ('assigned `rank > 0` to every read for ranks 0, 1 and >= 2 on every path' if not problems and assigns else
             '; '.join(sorted(set(problems))) or 'never assigned'), key='duplicate-flag-total', witness={'problems': sorted(set(problems))} if problems else None,
             what='Molecule.write_tags: the duplicate flag is not (re)assigned for every rank (a flag carried by the input survives on the first fragment)')
    ctx.exhaustive['C06-R1'] = True
    ctx.emit('C06-R1', sd_total, FRAGMENT, sd, 'Fragment.set_duplicate assigns its argument to every non-None read', key='set_duplicate-total', nontrivial=False)


def _untouched_is_real(cases, rc):
    """A path without assignment is real when it is caused by a guard on the rank (e.g. `if rc > 0:`), not merely by the
    zero-iteration edge of the read loop."""
    for conds, vals in cases:
        if not vals and any(rc in names_in(t) for t, pol in conds):
            return True
    return False


@rule('C06', 'C06-R2', 'count and rank tags are computed from the container they describe: af = len(self), RC = enumeration index over self, '
                       'TF = len(self.fragments) + overflow')
def r2(ctx):
    f = ctx.fn(MOLECULE, 'Molecule.write_tags')
    metas = {}
    for c in walk_no_nested(f):
        if isinstance(c, ast.Call) and isinstance(c.func, ast.Attribute) and c.func.attr == 'set_meta' and len(c.args) == 2 and isinstance(c.args[0], ast.Constant):
            metas.setdefault(c.args[0].value, []).append((src(c.func.value), src(c.args[1]), c))
    want = {'af': ('self', 'len(self)'), 'TF': ('self', 'len(self.fragments) + self.overflow_fragments')}
    for k, (obj, val) in want.items():
        got = metas.get(k, [])
        ok = len(got) == 1 and got[0][0] == obj and got[0][1] == val
        ctx.emit('C06-R2', ok, MOLECULE, got[0][2] if got else f, f'{k} = {got[0][1] if got else None} on {got[0][0] if got else None}', key=f'tag:{k}')
    got = metas.get('RC', [])
    ok = False
    if len(got) == 1:
        mod = ctx.ix.module(MOLECULE)
        p = mod.parent[mod.parent[got[0][2]]]
        ok = isinstance(p, ast.For) and isinstance(p.iter, ast.Call) and dotted(p.iter.func) == 'enumerate' and src(p.iter.args[0]) == 'self' and len(p.iter.args) == 1 \
            and isinstance(p.target, ast.Tuple) and got[0][1] == p.target.elts[0].id and got[0][0] == p.target.elts[1].id
    ctx.emit('C06-R2', ok, MOLECULE, got[0][2] if got else f, f'RC = enumeration index (from 0) of the fragment within the molecule', key='tag:RC')
    ln = ctx.fn(MOLECULE, 'Molecule.__len__')
    it = ctx.fn(MOLECULE, 'Molecule.__iter__')
    ok = any(isinstance(r, ast.Return) and src(r.value) == 'len(self.fragments)' for r in walk_no_nested(ln)) and \
        (any(isinstance(l, ast.For) and src(l.iter) == 'self.fragments' for l in walk_no_nested(it)) or
         any(isinstance(y, ast.YieldFrom) and src(y.value) in ('self.fragments', 'iter(self.fragments)') for y in walk_no_nested(it)) or
         any(isinstance(r, ast.Return) and src(r.value) == 'iter(self.fragments)' for r in walk_no_nested(it)))
    ctx.emit('C06-R2', ok, MOLECULE, ln, 'len(molecule) and iteration both range over self.fragments', key='len-iter-same-container', nontrivial=False)


@rule('C06', 'C06-R3', 'fragments are grouped only when cell, strand, contig and site (within the radius) agree and the UMIs are within the '
                       'allowed Hamming distance; with distance 0 only identical UMIs match')
def r3(ctx):
    # base Fragment.__eq__
    f = ctx.fn(FRAGMENT, 'Fragment.__eq__')
    # decision procedure of Fragment.__eq__: for every combination of (same cell, same strand, both spans valid, same contig) and every
    # (start, start, end, end, radius) the outcome is False unless everything agrees and min(|start diff|, |end diff|) <= radius, in which
    # case the UMI comparison decides - whatever the order / nesting of the tests
    import itertools
    from ..domains import assignments
    from ..util import outcomes_by_case
    ren = {'self.span[1]': 's1', 'other.span[1]': 's2', 'self.span[2]': 'e1', 'other.span[2]': 'e2', 'self.assignment_radius': 'r'}
    cases = [dict(zip(('s1', 's2', 'e1', 'e2', 'r'), v)) for v in itertools.product(range(-2, 3), range(-2, 3), range(-2, 3), range(-2, 3), range(0, 4))]
    missing = {'sample': 0, 'strand': 0, 'span validity': 0, 'contig': 0, 'distance': 0}
    ncase = 0
    for same_cell, same_strand, valid, same_contig in itertools.product((True, False), repeat=4):
        facts = {'self.sample != other.sample': not same_cell, 'self.strand != other.strand': not same_strand,
                 'self.has_valid_span()': valid, 'other.has_valid_span()': valid, 'self.span[0] != other.span[0]': not same_contig,
                 'self.get_span()[0] != other.get_span()[0]': not same_contig}
        sub = cases if (same_cell and same_strand and valid and same_contig) else cases[:1]
        for case, outs in outcomes_by_case(f.body, sub, lambda x: None if isinstance(x, ast.Compare) else ren.get(src(x)), facts=facts):
            ncase += 1
            close = min(abs(case['s1'] - case['s2']), abs(case['e1'] - case['e2'])) <= case['r']
            agree = same_cell and same_strand and valid and same_contig and close
            want = {('return', 'self.umi_eq(other)')} if agree else {('return', False)}
            if outs != want:
                which = 'sample' if not same_cell else 'strand' if not same_strand else 'span validity' if not valid else 'contig' if not same_contig else 'distance'
                missing[which] += 1
    ctx.counters['abstract_cases'] += ncase
    for k, bad_n in missing.items():
        ok = bad_n == 0
        ctx.emit('C06-R3', ok, FRAGMENT, f, f'Fragment.__eq__ rejects on {k}' + ('' if k != 'distance' else ' exactly when min(|start diff|, |end diff|) > radius') if ok else
                 f'Fragment.__eq__ does NOT compare {k} correctly ({bad_n} cases differ): fragments differing in {k} can be merged into one molecule',
                 key=f'Fragment.__eq__:{k}', nontrivial=(k == 'distance'), what=f'Fragment.__eq__ does not compare {k}')
    ctx.emit('C06-R3', missing['distance'] == 0, FRAGMENT, f, f'radius test over {ncase} cases == min(|start diff|, |end diff|) > radius; matching fragments are decided by umi_eq', key='Fragment.__eq__:radius-predicate')
    # umi_eq as decision procedure over (identical, same length, allowed distance k, Hamming distance d)
    u = ctx.fn(FRAGMENT, 'Fragment.umi_eq')

    def uatom(x):
        if isinstance(x, ast.Compare):
            return None
        if isinstance(x, ast.Call) and dotted(x.func) == 'hamming_distance':
            return 'd'
        return 'k' if src(x) == 'self.umi_hamming_distance' else None
    bad = []
    nu = 0
    for same in (True, False):
        for samelen in (True, False):
            facts = {'self.umi == other.umi': same, 'len(self.umi) != len(other.umi)': not samelen, 'len(self.umi) == len(other.umi)': samelen}
            ucases = [{'k': k_, 'd': d_} for k_ in range(0, 4) for d_ in range(0, 5) if (d_ == 0) == same or not samelen]
            for case, outs in outcomes_by_case(u.body, ucases, uatom, facts=facts):
                nu += 1
                want = True if same else (False if case['k'] == 0 or not samelen else case['d'] <= case['k'])
                got = {bool(v) if isinstance(v, (bool, int)) else v for kd, v in outs if kd == 'return'}
                if got != {want} or any(kd != 'return' for kd, v in outs):
                    if len(bad) < 3:
                        bad.append({'same': same, 'same_length': samelen, **case, 'outcomes': sorted(map(str, outs)), 'expected': want})
    ctx.counters['abstract_cases'] += nu
    ctx.emit('C06-R3', not bad, FRAGMENT, u, f'umi_eq over {nu} cases: identical UMIs match; distance 0 -> nothing else matches; otherwise same length and Hamming distance <= allowed distance' if not bad
             else f'umi_eq differs at {bad[0]}', key='umi_eq')
    ctx.emit('C06-R3', not bad, FRAGMENT, u, 'UMI distance test == distance <= allowed (part of the umi_eq decision table)', key='umi_eq:threshold', nontrivial=False)
    # NlaIII / CHIC match hashes
    for relpath, cls in ((FRAG_NLA, 'NlaIIIFragment'), (FRAG_CHIC, 'CHICFragment')):
        init = ctx.fn(relpath, f'{cls}.__init__')
        def tuple_elts(e):
            """elements of a tuple expression, also when written as a sum of tuples `(a,) + (b, c)`"""
            if isinstance(e, ast.Tuple):
                return list(e.elts)
            if isinstance(e, ast.BinOp) and isinstance(e.op, ast.Add):
                l_, r_ = tuple_elts(e.left), tuple_elts(e.right)
                return l_ + r_ if l_ is not None and r_ is not None else None
            return None
        hashes = []
        for s_ in walk_no_nested(init):
            if isinstance(s_, ast.Assign) and src(s_.targets[0]) == 'self.match_hash':
                te = tuple_elts(s_.value)
                if te is not None:
                    hashes.append(ast.copy_location(ast.Tuple(elts=te, ctx=ast.Load()), s_.value))
        eqf = ctx.fn(relpath, f'{cls}.__eq__')
        eqsrc = src(eqf)
        for h in hashes:
            comps = [src(e) for e in h.elts]
            has = {'sample': 'self.sample' in comps, 'contig': 'self.site_location[0]' in comps, 'strand': 'self.cut_site_strand' in comps or 'self.strand' in comps,
                   'site': 'self.site_location[1]' in comps or ('site_location[1]' in eqsrc and 'assignment_radius' in eqsrc)}
            ok = all(has.values())
            ctx.emit('C06-R3', ok, relpath, h, f'{cls} match hash {comps}: ' + ('cell, contig, strand and site are compared' if ok else f'missing {[k for k, v in has.items() if not v]}'),
                     key=f'{cls}:match-hash:{len(comps)}', nontrivial=False, what=f'{cls}: match hash lacks a component')
        # decision table: different match hash -> False; same hash -> the UMI comparison decides (possibly after further tests)
        from ..util import explore, mk_atoms
        from ..cfg import eval3, UNK
        a_diff = mk_atoms({'self.match_hash != other.match_hash': True, 'self.match_hash == other.match_hash': False, 'other.match_hash != self.match_hash': True, 'other.match_hash == self.match_hash': False})
        a_same = mk_atoms({'self.match_hash != other.match_hash': False, 'self.match_hash == other.match_hash': True, 'other.match_hash != self.match_hash': False, 'other.match_hash == self.match_hash': True})
        r_diff = explore(eqf.body, a_diff)
        r_same = explore(eqf.body, a_same)

        def is_false(r):
            if r['kind'] != 'return':
                return False
            v = eval3(r['stmt'].value, {}, a_diff)
            return v is not UNK and v is False or src(r['stmt'].value) == 'False'
        ok = bool(r_diff) and all(is_false(r) for r in r_diff) and \
            bool(r_same) and any(r['kind'] == 'return' and 'self.umi_eq(other)' in src(r['stmt'].value) for r in r_same)
        ctx.emit('C06-R3', ok, relpath, eqf, f'{cls}.__eq__ compares the match hash and the UMIs', key=f'{cls}:eq', nontrivial=False)
    ch = ctx.fn(FRAG_CHIC, 'CHICFragment.__eq__')
    # decision procedure of CHICFragment.__eq__ for equal match hashes and known sites, over all (site, site, radius >= 0): not equal iff
    # radius > 0 and |site difference| > radius, otherwise the UMI comparison decides - however the radius test is nested or merged
    from ..domains import assignments
    from ..util import outcomes_by_case
    ren = {'self.site_location[1]': 'p1', 'other.site_location[1]': 'p2', 'self.assignment_radius': 'r'}
    facts = {'self.match_hash != other.match_hash': False, 'self.match_hash == other.match_hash': True, 'self.site_location is None': False, 'other.site_location is None': False}
    cases = list(assignments(['p1', 'p2', 'r'], (0, 1, 2), (), lambda e: e['r'] >= 0))
    bad = []
    for case, outs in outcomes_by_case(ch.body, cases, lambda x: None if isinstance(x, ast.Compare) else ren.get(src(x)), facts=facts):
        far = case['r'] > 0 and abs(case['p1'] - case['p2']) > case['r']
        want = {('return', False)} if far else {('return', 'self.umi_eq(other)')}
        if outs != want and len(bad) < 3:
            bad.append({'case': case, 'outcomes': sorted(outs, key=str), 'expected': sorted(want, key=str)})
    ncase = len(cases)
    ctx.counters['abstract_cases'] += ncase
    if True:
        ctx.emit('C06-R3', not bad, FRAG_CHIC, ch, f'CHIC radius test over {ncase} cases == radius > 0 and |site diff| > radius' if not bad else f'CHIC radius test differs: {bad[0]}', key='CHIC:radius-predicate')


@rule('C06', 'C06-R4', 'a molecule is not ejected while a later fragment could still join it: ejection predicate and span maintenance (shared with C07-R4/R5), and no fragment joins two molecules (C07-R2, C07-R6)')
def r4(ctx):
    from . import C07
    sub = Ctx(ctx.ix, 'C07', ctx.tier)
    errors = []
    for fn_ in (C07.r2,          # every fragment is consumed exactly once (a fragment in two molecules is written twice)
                C07.r4, C07.r5, C07.r6, C07.r10, C07.r1, C07.r9):
        try:
            fn_(sub)
        except AnalysisError as e_:
            errors.append(e_)
    _include(ctx, sub, 'C07', 'C06-R4')
    if errors:
        raise errors[0]


@rule('C06', 'C06-R5', 'PCR copies of one cut get the same site whatever their soft clipping: site formulas of NlaIII / scCHIC (shared with C09-R1/R4)')
def r5(ctx):
    from . import C09
    sub = Ctx(ctx.ix, 'C09', ctx.tier)
    C09.r1(sub)
    C09.r4(sub)
    _include(ctx, sub, 'C09', 'C06-R5')


class _Unk(Exception):
    pass


def _select(e, counter, cname):
    """value of a selection expression over an insertion-ordered counter [(key, count), ...] bound to the source text `cname`: the idioms that
    pick a representative (most_common, max / min / sorted with key functions, indexing)"""
    d = dict(counter)

    def keyfn(k):
        if k is None:
            return lambda x: x
        t = src(k)
        if t == f'{cname}.get' or t == f'{cname}.__getitem__':
            return lambda x: d[x]
        if isinstance(k, ast.Lambda) and len(k.args.args) == 1:
            a = k.args.args[0].arg
            return lambda x: ev(k.body, {a: x})
        if isinstance(k, ast.Call) and (dotted(k.func) or '').endswith('itemgetter') and len(k.args) == 1 and isinstance(k.args[0], ast.Constant):
            return lambda x: x[k.args[0].value]
        raise _Unk(t)

    def ev(x, env=None):
        env = env or {}
        if src(x) == cname:
            return [k for k, _ in counter]
        if isinstance(x, ast.Constant):
            return x.value
        if isinstance(x, ast.Name) and x.id in env:
            return env[x.id]
        if isinstance(x, ast.UnaryOp) and isinstance(x.op, ast.USub):
            return -ev(x.operand, env)
        if isinstance(x, ast.Tuple):
            return tuple(ev(y, env) for y in x.elts)
        if isinstance(x, ast.Subscript):
            if src(x.value) == cname:
                return d[ev(x.slice, env)]
            b = ev(x.value, env)
            return b[ev(x.slice, env)]
        if isinstance(x, ast.Call):
            f_ = x.func
            kw = {k.arg: k.value for k in x.keywords}
            if isinstance(f_, ast.Attribute) and src(f_.value) == cname:
                if f_.attr == 'most_common':
                    n = ev(x.args[0], env) if x.args else None
                    r = sorted(counter, key=lambda kv: -kv[1])      # stable: ties keep insertion order, as Counter.most_common does
                    return r if n is None else r[:n]
                if f_.attr == 'items':
                    return list(counter)
                if f_.attr == 'keys':
                    return [k for k, _ in counter]
                if f_.attr == 'get' and x.args:
                    return d.get(ev(x.args[0], env))
            nm = dotted(f_) or ''
            if nm in ('sorted', 'max', 'min', 'list', 'tuple') and x.args:
                seq = list(ev(x.args[0], env))
                if nm in ('list', 'tuple'):
                    return seq
                kf = keyfn(kw.get('key'))
                if nm == 'sorted':
                    rev = ev(kw['reverse'], env) if 'reverse' in kw else False
                    return sorted(seq, key=kf, reverse=bool(rev))
                return max(seq, key=kf) if nm == 'max' else min(seq, key=kf)
        raise _Unk(src(x)[:40])
    return ev(e)


@rule('C06', 'C06-R6', 'the representative UMI of a molecule is its most frequent UMI and, among equally frequent ones, the one seen FIRST: a representative that '
                       'flips to a later arrival on a tie makes the next PCR copy (one mismatch from the first UMI, two from the new one) found a second molecule')
def r6(ctx):
    import itertools
    f = ctx.fn(MOLECULE, 'Molecule.update_umi')
    st = [a for a in walk_no_nested(f) if isinstance(a, ast.Assign) and len(a.targets) == 1 and src(a.targets[0]) == 'self.umi']
    if len(st) != 1:
        ctx.emit('C06-R6', False, MOLECULE, f, f'update_umi: {len(st)} assignments of self.umi', key='representative-umi', undecided=True)
        return
    e = st[0].value
    if isinstance(e, ast.Name):
        dd = [a.value for a in walk_no_nested(f) if isinstance(a, ast.Assign) and len(a.targets) == 1 and src(a.targets[0]) == e.id]
        e = dd[0] if len(dd) == 1 else e
    cname = 'self.umi_counter'
    bad, n = None, 0
    try:
        for counts in itertools.product((1, 2, 3), repeat=3):
            counter = list(zip('ABC', counts))          # insertion order A, B, C
            n += 1
            got = _select(e, counter, cname)
            want = max(counter, key=lambda kv: kv[1])[0]        # first maximum
            if got != want and bad is None:
                bad = {'counts in order of first appearance': dict(counter), 'representative': got, 'first most frequent': want}
    except (_Unk, KeyError, IndexError, TypeError) as ex:
        # written with more steps than one selector expression: the method itself is run on counters filled in order of first appearance
        try:
            import collections
            from ..consteval import module_scope, Evaluator, Instance
            env = module_scope(ctx.ix, MOLECULE)
            bad, n = None, 0
            for counts in itertools.product((1, 2, 3), repeat=3):
                counter = collections.Counter()
                for u_, c_ in zip('ABC', counts):
                    counter[u_] += c_
                n += 1
                mol = Instance(env['Molecule'], attrs={'umi_counter': counter, 'umi': None})
                e2 = dict(env)
                e2['mol'] = mol
                Evaluator(e2, budget=5000).ev(ast.parse('mol.update_umi()', mode='eval').body, e2)
                got = mol.attrs.get('umi')
                want = max(zip('ABC', counts), key=lambda kv: kv[1])[0]
                if got != want and bad is None:
                    bad = {'counts in order of first appearance': dict(zip('ABC', counts)), 'representative': got, 'first most frequent': want}
        except Exception as ex2:
            ctx.emit('C06-R6', False, MOLECULE, st[0], f'representative `{src(e)[:70]}` uses an idiom the selector evaluator does not know ({ex}) and update_umi is outside the interpreted subset ({type(ex2).__name__})',
                     key='representative-umi', undecided=True)
            return
        ctx.counters['interpreted_cases'] = ctx.counters.get('interpreted_cases', 0) + n
        ctx.emit('C06-R6', bad is None, MOLECULE, st[0], f'update_umi interpreted on {n} insertion-ordered counters: ' + ('the representative is the first most frequent UMI' if bad is None else f'differs, e.g. {bad}'),
                 key='representative-umi', witness=bad, what='Molecule.update_umi: tie between equally frequent UMIs is resolved to the later one')
        return
    ctx.counters['abstract_cases'] += n
    ctx.emit('C06-R6', bad is None, MOLECULE, st[0], f'representative `{src(e)[:70]}` on {n} insertion-ordered count vectors: ' + ('the first most frequent UMI' if bad is None else f'differs, e.g. {bad}'),
             key='representative-umi', witness=bad, what='Molecule.update_umi: tie between equally frequent UMIs is resolved to the later one')


@rule('C06', 'C06-R7', 'the primitives the grouping rests on: (a) the UMI distance is symmetric, 0 for identical strings and counts every position where two called bases differ '
                       '(evaluated for all pairs of short strings over A/C/N); (b) a fragment whose span is known is valid whatever the coordinates are - also at '
                       'reference position 0 (evaluated over spans with None / 0 / positive entries); (c) the bucket key (match_hash) of the plain Fragment holds only what '
                       'its __eq__ requires to be equal (cell, strand, contig): a key with one span end separates fragments that __eq__ joins through the other end')
def r7(ctx):
    import itertools
    from ..consteval import run_function, Raised, Unfoldable, LocalFn
    from .slots import SEQUTILS
    # (a)
    h = ctx.fn(SEQUTILS, 'hamming_distance')
    words = [''.join(w) for n_ in (1, 2) for w in itertools.product('ACN', repeat=n_)]
    bad, n = None, 0
    try:
        for a, b in itertools.product(words, repeat=2):
            if len(a) != len(b):
                continue
            n += 1
            d1, d2 = run_function(h, [a, b]), run_function(h, [b, a])
            called = sum(1 for x, y in zip(a, b) if x != y and 'N' not in (x, y))
            if d1 != d2:
                bad = f'hamming_distance({a!r}, {b!r}) = {d1} but hamming_distance({b!r}, {a!r}) = {d2}: whether two UMIs are linked depends on which of them arrived first'
            elif a == b and d1 != 0:
                bad = f'hamming_distance({a!r}, {a!r}) = {d1}'
            elif d1 < called:
                bad = f'hamming_distance({a!r}, {b!r}) = {d1} although {called} called bases differ'
            if bad:
                break
        ctx.emit('C06-R7', bad is None, SEQUTILS, h, f'hamming_distance over {n} pairs of words over A/C/N: symmetric, 0 on identical words, at least the number of differing called bases' if bad is None else bad,
                 key='umi-distance-symmetric', what='hamming_distance: the UMI distance is not symmetric / does not count differing bases')
    except (Unfoldable, Raised, Exception) as e_:
        ctx.emit('C06-R7', False, SEQUTILS, h, f'hamming_distance is outside the interpreted subset ({type(e_).__name__}: {e_})', key='umi-distance-symmetric', undecided=True)
    ctx.counters['interpreted_cases'] = ctx.counters.get('interpreted_cases', 0) + n
    # (b)
    v = ctx.fn(FRAGMENT, 'Fragment.has_valid_span')
    meths = {m.name: m for m in ctx.ix.cls(FRAGMENT, 'Fragment').body if isinstance(m, ast.FunctionDef)}
    bad, n = None, 0
    try:
        for span in itertools.product(('chr1', None), (None, 0, 7), (None, 0, 7, 12)):
            for mx in (None, 6):
                env = {'self.span': list(span), 'self.max_fragment_size': mx}
                for mn_ in ('get_span', 'get_fragment_size'):
                    if mn_ in meths:
                        env['self.' + mn_] = LocalFn(meths[mn_], env, bound='<self>')
                n += 1
                try:
                    got = run_function(v, ['<self>'], env=env)
                except Raised as r_:
                    got = f'raises {r_.name}'
                want = None not in span and (mx is None or abs(span[2] - span[1]) <= mx)
                if got is not want and bad is None:
                    bad = f'has_valid_span() of a fragment with span {span} (max_fragment_size={mx}) is {got}, expected {want}' + (': position 0 is a coordinate, not "missing"' if 0 in span and want else '')
        ctx.emit('C06-R7', bad is None, FRAGMENT, v, f'has_valid_span over {n} spans (entries None / 0 / positive, with and without size limit): valid iff no entry is None and the size is within the limit' if bad is None else bad,
                 key='valid-span-at-zero', what='Fragment.has_valid_span: a fragment at reference position 0 (or another legal span) is treated as having no span')
    except (Unfoldable, Exception) as e_:
        ctx.emit('C06-R7', False, FRAGMENT, v, f'has_valid_span is outside the interpreted subset ({type(e_).__name__}: {e_})', key='valid-span-at-zero', undecided=True)
    ctx.counters['interpreted_cases'] += n
    # (d) the span of an inward pair is anchored on the 5' end of R1 (the coordinate the plain fragment is compared by), also when R2 runs past it
    u = ctx.fn(FRAGMENT, 'Fragment.update_span')
    bad, n = None, 0
    try:
        from ..consteval import module_scope, Evaluator, Instance
        env = module_scope(ctx.ix, FRAGMENT)
        cls = env['Fragment']

        def read(rev, s_, e_, r1):
            return Instance(attrs={'is_reverse': rev, 'reference_start': s_, 'reference_end': e_, 'reference_name': 'chr1', 'is_unmapped': False, 'is_read1': r1, 'is_read2': not r1, 'cigar': [(0, e_ - s_)]})
        cases = [('R1 forward 100-150, R2 reverse 180-230', read(False, 100, 150, True), read(True, 180, 230, False), ('chr1', 100, 230)),
                 ('R1 forward 100-150, R2 reverse 95-140 (R2 runs past the start of R1)', read(False, 100, 150, True), read(True, 95, 140, False), ('chr1', 100, 140)),
                 ('R1 reverse 180-230, R2 forward 100-150', read(True, 180, 230, True), read(False, 100, 150, False), ('chr1', 100, 230)),
                 ('R1 reverse 180-230, R2 forward 190-240 (R2 runs past the end of R1)', read(True, 180, 230, True), read(False, 190, 240, False), ('chr1', 190, 230)),
                 ('R1 forward 100-150 only', read(False, 100, 150, True), None, ('chr1', 100, 150)),
                 ('R2 reverse 180-230 only', None, read(True, 180, 230, False), ('chr1', 180, 230))]
        for text, r1, r2, want in cases:
            n += 1
            frag = Instance(cls, attrs={'reads': [r1, r2], 'R1': r1, 'R2': r2, 'span': [None, None, None], 'safe_span': None, 'single_end': False})
            e = dict(env)
            e['frag'] = frag
            Evaluator(e, budget=20000).ev(ast.parse('frag.update_span()', mode='eval').body, e)
            got = tuple(frag.attrs.get('span'))
            if got != want and bad is None:
                bad = f'update_span of a fragment with {text} gives the span {got}, expected {want}: the copies of one molecule are compared by the 5\' end of R1, a copy whose R2 runs past it gets another span and starts a molecule of its own'
        ctx.emit('C06-R7', bad is None, FRAGMENT, u, f'update_span on {n} model fragments (inward pairs on both strands, with and without R2 running past the R1 end, single mates): the span runs from / to the 5\' end of R1' if bad is None else bad,
                 key='span-anchored-on-R1', what='Fragment.update_span: the span of an inward pair is not anchored on the R1 end')
    except (Unfoldable, Raised, Exception) as e_:
        ctx.emit('C06-R7', False, FRAGMENT, u, f'update_span is outside the interpreted subset ({type(e_).__name__}: {str(e_)[:80]})', key='span-anchored-on-R1', undecided=True)
    ctx.counters['interpreted_cases'] += n
    # (c)
    init = ctx.fn(FRAGMENT, 'Fragment.__init__')
    allowed = {'self.sample', 'self.strand', 'self.span[0]', 'self.get_span()[0]', 'self.get_strand()', 'self.get_sample()'}
    keys = [s_ for s_ in walk_no_nested(init) if isinstance(s_, ast.Assign) and any(src(t) == 'self.match_hash' for t in s_.targets) and not (isinstance(s_.value, ast.Constant) and s_.value.value is None)]
    nb = 0
    for s_ in keys:
        comps = [src(e) for e in s_.value.elts] if isinstance(s_.value, ast.Tuple) else None
        if comps is None:
            ctx.emit('C06-R7', False, FRAGMENT, s_, f'Fragment.__init__ sets the bucket key `{src(s_.value)}`: not a tuple display', key='plain-fragment-bucket-key', undecided=True)
            continue
        ends = [c for c in comps if 'span[1' in c or 'span[2' in c or 'span[:' in c or 'span[-' in c]
        other = [c for c in comps if c not in allowed and c not in ends]
        if ends:
            nb += 1
            ctx.emit('C06-R7', False, FRAGMENT, s_, f'Fragment.__init__ puts {ends} into the bucket key {comps}: Fragment.__eq__ joins two fragments when EITHER span end lies within the radius, '
                     f'so copies of one molecule that share only the other end are kept in different buckets and never compared', key='plain-fragment-bucket-key',
                     what='Fragment: bucket key (match_hash) contains a span end that __eq__ does not require to be equal')
        elif other:
            ctx.emit('C06-R7', False, FRAGMENT, s_, f'Fragment.__init__ bucket key {comps}: cannot show that {other} are equal for all fragments __eq__ joins', key='plain-fragment-bucket-key', undecided=True)
    if not nb:
        ctx.emit('C06-R7', True, FRAGMENT, init, 'the plain Fragment has no bucket key (one bucket)' if not keys else f'bucket key of the plain Fragment holds only {sorted(allowed)}', key='plain-fragment-bucket-key', nontrivial=bool(keys))


def _family_ctor_params(ctx, pkgdir):
    """(explicit constructor parameters, attributes read as self.<name>) over all classes of a sub-package"""
    params, reads = set(), set()
    for fn_ in sorted(ctx.ix.listdir(pkgdir)):
        if not fn_.endswith('.py'):
            continue
        mod = ctx.ix.module(pkgdir + '/' + fn_)
        for q, ds in mod.defs.items():
            d = ds[-1]
            if not isinstance(d, ast.FunctionDef) or '.' not in q:
                continue
            if q.endswith('.__init__'):
                params |= {a.arg for a in d.args.args[1:] + d.args.kwonlyargs}
            for x in ast.walk(d):
                if isinstance(x, ast.Attribute) and isinstance(x.ctx, ast.Load) and isinstance(x.value, ast.Name) and x.value.id == 'self':
                    reads.add(x.attr)
    return params, reads


def _class_arg_keys(f, name):
    keys = {}
    for n in walk_no_nested(f):
        if isinstance(n, ast.Assign):
            for t in n.targets:
                if isinstance(t, ast.Subscript) and isinstance(t.value, ast.Name) and t.value.id == name and isinstance(t.slice, ast.Constant):
                    keys.setdefault(t.slice.value, n)
                if isinstance(t, ast.Name) and t.id == name and isinstance(n.value, ast.Dict):
                    for k in n.value.keys:
                        if isinstance(k, ast.Constant):
                            keys.setdefault(k.value, n)
        if isinstance(n, ast.Call) and isinstance(n.func, ast.Attribute) and n.func.attr == 'update' and isinstance(n.func.value, ast.Name) and n.func.value.id == name:
            for a in n.args:
                if isinstance(a, ast.Dict):
                    for k in a.keys:
                        if isinstance(k, ast.Constant):
                            keys.setdefault(k.value, n)
            for k in n.keywords:
                if k.arg:
                    keys.setdefault(k.arg, n)
    return keys


@rule('C06', 'C06-R8', 'the grouping options of the tagger reach the class that reads them: an option that only the fragment classes take as a constructor parameter (UMI distance, '
                       'assignment radius, ...) is stored in fragment_class_args - in molecule_class_args it ends up in the unused keyword arguments of Molecule and the '
                       'fragments compare with their defaults')
def r8(ctx):
    from .slots import BTM, P
    f = ctx.fn(BTM, 'run_multiome_tagging')
    fparams, freads = _family_ctor_params(ctx, P + 'fragment')
    mparams, mreads = _family_ctor_params(ctx, P + 'molecule')
    fkeys, mkeys = _class_arg_keys(f, 'fragment_class_args'), _class_arg_keys(f, 'molecule_class_args')
    ctx.need('C06-R8', len(fkeys) + len(mkeys), 10, 'class argument keys set by run_multiome_tagging')
    n = 0
    for keys, other, own_params, other_params, own, oth in ((mkeys, fkeys, mparams, fparams, 'molecule_class_args', 'fragment_class_args'),
                                                           (fkeys, mkeys, fparams, mparams, 'fragment_class_args', 'molecule_class_args')):
        for k, node in sorted(keys.items()):
            if k in own_params or k not in other_params:
                continue       # read by its own family, or a free-form keyword nobody declares
            n += 1
            ok = k in other
            ctx.emit('C06-R8', ok, BTM, node, f'`{k}` is a constructor parameter of the {oth[:-11]} classes only; it is stored in {oth}' + (f' (and in {own})' if ok else
                     f' nowhere - only in {own}, where no constructor takes it: the value given on the command line is ignored and the default of the {oth[:-11]} classes is used'),
                     key=f'option-routed:{k}', witness={'option': k, 'stored in': own, 'read by': f'{oth[:-11]} classes (self.{k})'} if not ok else None,
                     what=f'run_multiome_tagging: option {k} is handed to the wrong class')
    for k in ('umi_hamming_distance', 'assignment_radius'):
        # the two options the grouping itself reads
        ok = k in fkeys and k in fparams and k in freads
        ctx.emit('C06-R8', ok, BTM, fkeys.get(k, f), f'`{k}` is stored in fragment_class_args; the fragment classes take it and read self.{k}' if ok else
                 f'`{k}` does not reach the fragment classes (in fragment_class_args: {k in fkeys}; fragment constructor parameter: {k in fparams})', key=f'grouping-option:{k}',
                 witness={'option': k, 'in fragment_class_args': k in fkeys} if not ok else None, what=f'run_multiome_tagging: {k} is not handed to the fragments')


META = {
    'text': ('Decides structural clauses: the duplicate bit written by Molecule.write_tags is assigned `rank > 0` to every read of every fragment for '
             'the abstract ranks 0, 1, >=2 on every path (hence independent of flags carried by the input; re-tagging is idempotent in that bit); af, RC and TF '
             'are computed from the container they describe; the equality relations used to group fragments compare cell, strand, contig and '
             'site/coordinates within the radius (radius predicates enumerated) and UMIs within the allowed Hamming distance (0 -> identical only); '
             'the ejection predicate and span maintenance cannot split a molecule (C07-R4/R5); site formulas are clip independent (C09-R1/R4). Does NOT '
             'decide that the partition equals a simulated ground truth.'),
    'technique': 'static analysis: path enumeration over abstract ranks, comparison-predicate enumeration of radius/UMI tests, component-set checks of match hashes, imported symbolic site analysis; small-scope abstract execution of hamming_distance (all word pairs over A/C/N) and has_valid_span (spans with None / 0 / positive entries), of update_span on model mate pairs; option routing between the fragment and molecule constructor families',
    'design_ref': 'DESIGN.md section 5, C06',
}


from . import shared as _shared
_shared.register('C06', 'C06')
