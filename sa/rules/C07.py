"""C07 - molecule partition is independent of the buffer-ejection schedule (structural clauses)."""
import ast

from ..core import rule
from ..index import AnalysisError, dotted, src, walk_no_nested, names_in, dump
from ..cfg import CFG, const_env_step, eval3, UNK
from ..domains import linform, Lin, check_pred
from ..util import reach_conds, explore, mk_atoms, outcomes_by_case, node_calls, last_name, own_expr, func_cfg, stmt_of
from .slots import MOLITER, MOLECULE

FN = 'MoleculeIterator.__iter__'


def _enumerate_loop(loop):
    """(index name, element target, iterated expr) for `for i, x in enumerate(E)`; None otherwise."""
    it = loop.iter
    if isinstance(it, ast.Call) and dotted(it.func) == 'enumerate' and len(it.args) >= 1 \
            and isinstance(loop.target, ast.Tuple) and len(loop.target.elts) == 2 and isinstance(loop.target.elts[0], ast.Name):
        return loop.target.elts[0].id, loop.target.elts[1], it.args[0]
    return None


def _aliases(fdef, mod):
    """local name -> expression it is bound to by `for k, v in D.items()` (v aliases D[k])."""
    out = {}
    for loop in [n for n in walk_no_nested(fdef) if isinstance(n, ast.For)]:
        it = loop.iter
        if isinstance(it, ast.Call) and isinstance(it.func, ast.Attribute) and it.func.attr == 'items' \
                and isinstance(loop.target, ast.Tuple) and len(loop.target.elts) == 2 \
                and all(isinstance(e, ast.Name) for e in loop.target.elts):
            k, v = loop.target.elts
            out[v.id] = src(it.func.value) + '[' + k.id + ']'
    return out


BUFFERS = {'self.molecules': 'L', 'self.molecules_per_cell': 'D'}


def buffer_types(fdef):
    """Resolves what a local expression of the iterator denotes in terms of the two molecule buffers: a set of (kind, base) with kind
    'D' (the per-cell dictionary of lists), 'L' (one list of buffered molecules), 'M' (a buffered molecule), ('I', T) an iterable of T,
    ('P', T) a (key/index, T) pair.  Names are resolved through every binding in the function (assignments, loop targets), so a loop
    over `buffers = (self.molecules,)` / `self.molecules_per_cell.values()` types its variable as a molecule list of either buffer."""
    binds = {}
    for n in walk_no_nested(fdef):
        if isinstance(n, ast.Assign) and len(n.targets) == 1 and isinstance(n.targets[0], ast.Name):
            binds.setdefault(n.targets[0].id, []).append(('val', n.value))
        elif isinstance(n, ast.For):
            t = n.target
            if isinstance(t, ast.Name):
                binds.setdefault(t.id, []).append(('elem', n.iter))
            elif isinstance(t, ast.Tuple) and len(t.elts) == 2 and isinstance(t.elts[1], ast.Name):
                binds.setdefault(t.elts[1].id, []).append(('second', n.iter))

    def elem(ts):
        out = set()
        for k, b in ts:
            if k == 'L':
                out.add(('M', b))
            elif isinstance(k, tuple) and k[0] == 'I':
                out.add((k[1], b))
        return out

    def second(ts):
        out = set()
        for k, b in elem(ts):
            if isinstance(k, tuple) and k[0] == 'P':
                out.add((k[1], b))
        return out

    def typeof(e, depth=0):
        if depth > 8:
            return set()
        t = src(e)
        if t in BUFFERS:
            return {(BUFFERS[t], t)}
        if isinstance(e, ast.Name):
            out = set()
            for how, v in binds.get(e.id, []):
                tv = typeof(v, depth + 1)
                out |= tv if how == 'val' else elem(tv) if how == 'elem' else second(tv)
            return out
        if isinstance(e, ast.Subscript):
            out = set()
            for k, b in typeof(e.value, depth + 1):
                if k == 'D':
                    out.add(('L', b))
                elif k == 'L' and not isinstance(e.slice, ast.Slice):
                    out.add(('M', b))
                elif k == 'L':
                    out.add(('L', b))
            return out
        if isinstance(e, ast.IfExp):
            return typeof(e.body, depth + 1) | typeof(e.orelse, depth + 1)
        if isinstance(e, (ast.Tuple, ast.List)):
            return {(('I', k), b) for x in e.elts for k, b in typeof(x, depth + 1)}
        if isinstance(e, ast.Call):
            f_ = e.func
            if isinstance(f_, ast.Attribute) and f_.attr in ('values', 'items') and not e.args:
                out = set()
                for k, b in typeof(f_.value, depth + 1):
                    if k == 'D':
                        out.add((('I', 'L'), b) if f_.attr == 'values' else (('I', ('P', 'L')), b))
                return out
            name = dotted(f_) or ''
            if name == 'enumerate' and e.args:
                return {(('I', ('P', k2)), b) for k2, b in elem(typeof(e.args[0], depth + 1))}
            if name in ('list', 'tuple', 'iter', 'reversed', 'sorted') and e.args:
                return {(('I', k2), b) if k2 != 'M' else ('L', b) for k2, b in elem(typeof(e.args[0], depth + 1))}
            if name.endswith('chain.from_iterable') and e.args:
                return {(('I', k2), b) if k2 != 'M' else ('L', b) for k2, b in elem(elem(typeof(e.args[0], depth + 1)))}
            if name.endswith('chain') and e.args:
                return {(('I', k2), b) if k2 != 'M' else ('L', b) for a in e.args for k2, b in elem(typeof(a, depth + 1))}
            if isinstance(f_, ast.Attribute) and f_.attr == 'pop':
                return {('M', b) for k, b in typeof(f_.value, depth + 1) if k == 'L'}
        return set()
    return typeof


def removal_sites(fdef):
    """All `X.pop(E)` / `del X[E]` with a non-constant index inside a for loop -> (loop, container expr, index expr, node)."""
    out = []
    for loop in [n for n in walk_no_nested(fdef) if isinstance(n, ast.For)]:
        for n in walk_no_nested(loop):
            if isinstance(n, ast.Call) and isinstance(n.func, ast.Attribute) and n.func.attr == 'pop' and len(n.args) == 1 \
                    and not isinstance(n.args[0], ast.Constant):
                inner = _innermost_loop(loop, n)
                if inner is loop:
                    out.append((loop, n.func.value, n.args[0], n))
            if isinstance(n, ast.Delete):
                for t in n.targets:
                    if isinstance(t, ast.Subscript) and not isinstance(t.slice, (ast.Constant, ast.Slice)):
                        if _innermost_loop(loop, n) is loop:
                            out.append((loop, t.value, t.slice, n))
    return out


def _innermost_loop(outer, node):
    best = None
    for l in [x for x in walk_no_nested(outer) if isinstance(x, (ast.For, ast.While))]:
        if any(x is node for x in walk_no_nested(l)):
            if best is None or any(x is l for x in walk_no_nested(best)):
                best = l
    return best


@rule('C07', 'C07-R1', 'removal-index compensation: elements selected by ascending original index j are removed with '
                       'pop(j - #already removed) (or in descending order with pop(j)) from the container the indices were taken from')
def r1(ctx):
    _model_or_structural(ctx, 'C07-R1', _r1_structural, 'removal:model', 'the molecules left in each buffer are the not ejectable ones in their old order')


def _r1_structural(ctx):
    ix = ctx.ix
    f = ctx.fn(MOLITER, FN)
    mod = ix.module(MOLITER)
    alias = _aliases(f, mod)
    sites = removal_sites(f)
    n = 0
    for loop, cont, idx, node in sites:
        n += 1
        key = f'removal:{src(cont)}'
        en = _enumerate_loop(loop)
        L = None
        descending = False
        if en is not None:
            i, jt, L = en
            if not isinstance(jt, ast.Name):
                ctx.emit('C07-R1', False, MOLITER, node, f'unrecognised removal loop target {src(loop.target)}', key=key, undecided=True)
                continue
            j = jt.id
            form = linform(idx)
            want = Lin({j: 1, i: -1})
            okidx = form == want
            detail = f'{src(cont)}.pop({src(idx)}) with i = number of elements already removed, j = original index: index form {form} ' + \
                     ('== j - i' if okidx else f'!= j - i (removes the wrong element unless the selected elements form a prefix)')
        else:
            it = loop.iter
            if isinstance(it, ast.Call) and dotted(it.func) in ('reversed',) and it.args:
                L = it.args[0]
                descending = True
            elif isinstance(it, ast.Call) and dotted(it.func) == 'sorted' and it.args and \
                    any(k.arg == 'reverse' and isinstance(k.value, ast.Constant) and k.value.value is True for k in it.keywords):
                L = it.args[0]
                descending = True
            elif isinstance(it, ast.Subscript) and isinstance(it.slice, ast.Slice) and it.slice.step is not None \
                    and src(it.slice.step) == '-1' and it.slice.lower is None and it.slice.upper is None:
                L = it.value
                descending = True
            if not descending or not isinstance(loop.target, ast.Name):
                ctx.emit('C07-R1', False, MOLITER, node, f'removal by computed index in a loop of unrecognised shape: for {src(loop.target)} in {src(loop.iter)}',
                         key=key, undecided=True)
                continue
            okidx = linform(idx) == Lin({loop.target.id: 1})
            detail = f'descending removal {src(cont)}.pop({src(idx)}): ' + ('index is the original index' if okidx else 'index is not the original index')
        # the index list must have been collected from enumerate() over the same container
        okprov, why = _selection_provenance(f, L, cont, alias)
        ctx.emit('C07-R1', okidx and okprov, MOLITER, node, detail + '; ' + why, key=key,
                 witness=None if okidx else {'abstract case': 'to_pop=[1,2] on a buffer of 3: first pop uses index ' + src(idx)},
                 what=f'wrong index compensation {src(cont)}.pop({src(idx)}) in the ejection loop')
    # range deletions `del buf[a:b]` whose bounds come from a per-element selection: the selected indices need not be contiguous
    for d in walk_no_nested(f):
        if not isinstance(d, ast.Delete):
            continue
        for t in d.targets:
            if not (isinstance(t, ast.Subscript) and isinstance(t.slice, ast.Slice)):
                continue
            bounds = [b for b in (t.slice.lower, t.slice.upper) if b is not None]
            sel = {x.id for b in bounds for x in ast.walk(b) if isinstance(x, ast.Name)}
            lists = []
            for nm in sorted(sel):
                apps = [c for c in walk_no_nested(f) if isinstance(c, ast.Call) and isinstance(c.func, ast.Attribute) and c.func.attr == 'append'
                        and isinstance(c.func.value, ast.Name) and c.func.value.id == nm and len(c.args) == 1]
                if apps:
                    lists.append((nm, apps))
            if not lists:
                continue
            n += 1
            nm, apps = lists[0]
            conditional = False
            for c in apps:
                for l in [x for x in walk_no_nested(f) if isinstance(x, ast.For)]:
                    if _innermost_loop(l, c) is l:
                        conditional = conditional or bool(reach_conds(l.body, c))
            ctx.emit('C07-R1', not conditional, MOLITER, d, f'range deletion del {src(t)} with bounds taken from the selection list {nm}: ' +
                     ('the selection is conditional per element, so unselected elements between the first and last selected index are removed as well' if conditional
                      else 'every element is selected, the range is the whole selection'), key=f'removal:{src(t.value)}',
                     what=f'range deletion over a non-contiguous selection ({nm})')
    ty = buffer_types(f)
    # the buffers keep the order in which molecules were created (a fragment joins the FIRST buffered molecule that accepts it, C07-R6): no
    # element of a buffer is overwritten, and a buffer is never sorted / reversed
    cls_ = ctx.ix.cls(MOLITER, 'MoleculeIterator')
    reorder = []
    for m_ in [x for x in cls_.body if isinstance(x, ast.FunctionDef)]:
        tym = buffer_types(m_)
        params_ = {a_.arg for a_ in m_.args.args}
        callers_pass_buffer = {a_.arg for a_ in m_.args.args if any(isinstance(c_, ast.Call) and isinstance(c_.func, ast.Attribute) and c_.func.attr == m_.name and any(
            any(k_ == 'L' for k_, b_ in ty(arg_)) for arg_ in c_.args) for c_ in walk_no_nested(f))}
        for n_ in walk_no_nested(m_):
            tgt = None
            if isinstance(n_, ast.Assign):
                for t_ in n_.targets:
                    if isinstance(t_, ast.Subscript) and not isinstance(t_.slice, ast.Slice):
                        tgt = t_.value
            elif isinstance(n_, ast.Call) and isinstance(n_.func, ast.Attribute) and n_.func.attr in ('sort', 'reverse'):
                tgt = n_.func.value
            if tgt is not None and (any(k_ == 'L' for k_, b_ in tym(tgt)) or (isinstance(tgt, ast.Name) and tgt.id in callers_pass_buffer)):
                reorder.append((m_.name, n_))
    ctx.emit('C07-R1', not reorder, MOLITER, reorder[0][1] if reorder else f, 'the molecule buffers are never re-ordered (no element overwritten, no sort / reverse)' if not reorder else
             f'MoleculeIterator.{reorder[0][0]} re-orders a molecule buffer (`{src(reorder[0][1])[:50]}`): which molecule a later fragment joins depends on when the buffer was last checked',
             key='buffer-order-preserved', what='a molecule buffer is re-ordered while molecules are ejected')
    covered = {b for loop, cont, idx, node in sites for k, b in ty(cont) if k == 'L'} | \
              {b for d in walk_no_nested(f) if isinstance(d, ast.Delete) for t in d.targets if isinstance(t, ast.Subscript) and isinstance(t.slice, ast.Slice) for k, b in ty(t.value) if k == 'L'}
    ctx.need('C07-R1', n, 1, 'index-based removals in the ejection loops')
    if covered != set(BUFFERS):
        raise AnalysisError(f'C07-R1: ejection removals cover the buffers {sorted(covered)}, expected both {sorted(BUFFERS)} (idiom not recognised)')


def _selection_provenance(f, L, cont, alias):
    if not isinstance(L, ast.Name):
        return False, f'selection list {src(L)} is not a local'
    appends = []
    for n in walk_no_nested(f):
        if isinstance(n, ast.Call) and isinstance(n.func, ast.Attribute) and n.func.attr == 'append' \
                and isinstance(n.func.value, ast.Name) and n.func.value.id == L.id and len(n.args) == 1:
            appends.append(n)
    if not appends:
        return False, f'no append to {L.id} found'
    want = src(cont)
    ok_any = False
    for a in appends:
        # enclosing enumerate loop
        for loop in [x for x in walk_no_nested(f) if isinstance(x, ast.For)]:
            if any(y is a for y in walk_no_nested(loop)) and _enumerate_loop(loop):
                i, _, E = _enumerate_loop(loop)
                if isinstance(a.args[0], ast.Name) and a.args[0].id == i:
                    e = src(E)
                    if e == want or alias.get(e) == want or alias.get(want) == e:
                        ok_any = True
    return ok_any, (f'indices in {L.id} are enumerate() positions of {want}' if ok_any else
                    f'indices in {L.id} were not taken from enumerate({want})')


# ---------------------------------------------------------------------------------------------
def ejection_model(ctx):
    """The periodic ejection step of the iterator, lifted out of the read loop and run by the abstract interpreter on model buffers: up to four
    molecules (tokens that only answer `can_be_yielded`, `len`, `__finalise__`) in every combination of ejectable / not ejectable, for both pooling
    methods.  The step has to yield exactly the ejectable molecules (each once, finalised first), leave the others in their buffer in their old
    order, keep the two fragment counters coherent, and ask can_be_yielded with the span of the current fragment.  Returns (ok, cases, witness) or
    None when the step uses constructs outside the interpreted subset (the structural rules decide then).  Cached per run."""
    if hasattr(ctx, '_ejection_model'):
        return ctx._ejection_model
    import copy
    import itertools
    from ..consteval import run_function, Unfoldable, Raised
    ctx._ejection_model = None
    try:
        f = ctx.fn(MOLITER, FN)
        main = _main_loop(f)
    except AnalysisError:
        return None
    gates = [s for s in walk_no_nested(main) if isinstance(s, ast.If) and 'check_eject_every' in src(s.test)]
    if len(gates) != 1:
        return None
    frag = None
    for a in walk_no_nested(main):
        if isinstance(a, ast.Assign) and len(a.targets) == 1 and isinstance(a.targets[0], ast.Name) and isinstance(a.value, ast.Call) and 'fragment_class' in src(a.value.func):
            frag = a.targets[0].id
    frag = frag or 'fragment'
    step_body = gates[0].body
    if len(step_body) == 1 and isinstance(step_body[0], ast.Continue) and not gates[0].orelse:
        # the gate written as a guard clause (`if not due: continue`): the step is what follows it in the read loop
        mod_ = ctx.ix.module(MOLITER)
        holder = mod_.parent.get(gates[0])
        blk = next((getattr(holder, fld) for fld in ('body', 'orelse') if isinstance(getattr(holder, fld, None), list) and gates[0] in getattr(holder, fld)), None)
        if blk is None:
            return None
        step_body = blk[blk.index(gates[0]) + 1:]
    elif gates[0].orelse and len(gates[0].orelse) == 1 and isinstance(gates[0].orelse[0], ast.Continue):
        pass
    step = ast.FunctionDef(name='ejection_step', args=ast.arguments(posonlyargs=[], args=[ast.arg(arg='self'), ast.arg(arg=frag)], kwonlyargs=[], kw_defaults=[], defaults=[]),
                           body=copy.deepcopy(step_body), decorator_list=[], lineno=gates[0].lineno, col_offset=0)
    ast.fix_missing_locations(step)
    n = 0

    def tok(i, y):
        return ('mol', i, y) + (('pad',) if i % 2 else ())
    try:
        for pm in (0, 1):
            for size in range(0, 5):
                for mask in itertools.product((False, True), repeat=size):
                    toks = [tok(i, y) for i, y in enumerate(mask)]
                    layouts = [None] if pm == 0 else ([(size,)] if size < 2 else [(k, size - k) for k in range(1, size)])
                    for lay in layouts:
                        n += 1
                        events = []
                        asked = []

                        def hook(ev, call, env, events=events, asked=asked):
                            if isinstance(call.func, ast.Attribute):
                                at = call.func.attr
                                if at == 'get_span':
                                    return ('chr1', 0, 100)
                                if at == 'can_be_yielded':
                                    t = ev.ev(call.func.value, env)
                                    asked.append(tuple(ev.ev(x, env) for x in call.args))
                                    return t[2]
                                if at == '__finalise__':
                                    events.append(('fin', ev.ev(call.func.value, env)))
                                    return None
                                if at == 'yield_func' and src(call.func.value) == 'self':
                                    t = ev.ev(call.args[0], env)
                                    events.append(('yield', t))
                                    return [t]
                            return NotImplemented
                        env = {'self.pooling_method': pm, 'self.waiting_fragments': 1000, 'self.yielded_fragments': 0, 'self.check_ejection_iter': 7, 'self.check_eject_every': 1,
                               'self.deleted_fragments': 0, 'self.max_buffer_size': None, 'self.molecules': [], 'self.molecules_per_cell': {}}
                        if pm == 0:
                            env['self.molecules'] = list(toks)
                            before = {'L': list(toks)}
                        else:
                            groups, k0 = {}, 0
                            for gi, gl in enumerate(lay):
                                groups[f'g{gi}'] = list(toks[k0:k0 + gl])
                                k0 += gl
                            env['self.molecules_per_cell'] = groups
                            before = {g_: list(v_) for g_, v_ in groups.items()}
                        out = {}
                        try:
                            ys = run_function(step, ['<self>', '<fragment>'], env=env, budget=60000, call_hook=hook, out_scope=out) or []
                        except Raised as r_:
                            if r_.name in ('IndexError', 'KeyError', 'ValueError', 'TypeError', 'AttributeError', 'RuntimeError'):
                                # the step itself fails on a model buffer: that is a finding, not a limit of the interpreter
                                ctx._ejection_model = (False, n, {'pooling_method': pm, 'buffer (ejectable?)': [t[2] for t in toks] if pm == 0 else {g_: [t[2] for t in v_] for g_, v_ in before.items()},
                                                                  'problem': f'the ejection step raises {r_.name} ({str(r_)[:60]})'})
                                return ctx._ejection_model
                            raise
                        after = {'L': out.get('self.molecules')} if pm == 0 else dict(out.get('self.molecules_per_cell') or {})
                        want_y = [t for t in toks if t[2]]
                        case = {'pooling_method': pm, 'buffer (ejectable?)': [t[2] for t in toks] if pm == 0 else {g_: [t[2] for t in v_] for g_, v_ in before.items()}}
                        if sorted(ys, key=str) != sorted(want_y, key=str):
                            lost = [t[1] for t in want_y if t not in ys]
                            extra = [t[1] for t in ys if not t[2]]
                            dup = sorted({t[1] for t in ys if ys.count(t) > 1})
                            ctx._ejection_model = (False, n, dict(case, problem='yielded molecules differ from the ejectable ones', not_yielded=lost, yielded_but_not_ejectable=extra, yielded_twice=dup))
                            return ctx._ejection_model
                        for t in ys:
                            if ('fin', t) not in events or events.index(('fin', t)) > events.index(('yield', t)):
                                ctx._ejection_model = (False, n, dict(case, problem=f'molecule {t[1]} is yielded without being finalised first'))
                                return ctx._ejection_model
                        for g_, v_ in before.items():
                            keep_ = [t for t in v_ if not t[2]]
                            left = list(after.get(g_) or [])
                            if left != keep_:
                                ctx._ejection_model = (False, n, dict(case, problem=f'buffer {g_ if pm else "self.molecules"} holds molecules {[t[1] for t in left]} afterwards, expected the not ejectable ones '
                                                                                    f'{[t[1] for t in keep_]} in their old order'))
                                return ctx._ejection_model
                        tot = sum(len(t) for t in want_y)
                        if out.get('self.waiting_fragments') != 1000 - tot or out.get('self.yielded_fragments') != tot:
                            ctx._ejection_model = (False, n, dict(case, problem=f'fragment counters: waiting {out.get("self.waiting_fragments")} (expected {1000 - tot}), yielded {out.get("self.yielded_fragments")} (expected {tot})'))
                            return ctx._ejection_model
                        if any(a_ != ('chr1', 100) for a_ in asked) or len(asked) < len(toks):
                            ctx._ejection_model = (False, n, dict(case, problem=f'can_be_yielded asked {len(asked)} times with {sorted(set(asked))[:2]}: expected once per buffered molecule with (contig, end) of the current fragment'))
                            return ctx._ejection_model
    except (Unfoldable, Raised):
        return None
    except Exception:
        return None
    ctx._ejection_model = (True, n, None)
    return ctx._ejection_model


def _model_or_structural(ctx, rid, structural, key, text_ok):
    """run the structural rule; where it cannot decide (anchor not found / undecided obligations) the interpreted model of the ejection step
    decides instead"""
    from ..core import Ctx, UNDECIDED
    sub = Ctx(ctx.ix, 'C07', ctx.tier)
    err = None
    try:
        structural(sub)
    except AnalysisError as e_:
        err = e_
    und = [o for o in sub.obligations if o.status == UNDECIDED]
    for k_, v_ in sub.counters.items():
        if isinstance(v_, set):
            ctx.counters[k_] = ctx.counters.get(k_, set()) | v_
        else:
            ctx.counters[k_] = ctx.counters.get(k_, 0) + v_
    for k_, v_ in getattr(sub, 'exhaustive', {}).items():
        ctx.exhaustive[k_] = v_
    if err is None and not und:
        ctx.obligations.extend(sub.obligations)
        return
    m = ejection_model(ctx)
    if m is None:
        ctx.obligations.extend(sub.obligations)
        if err is not None:
            raise err
        return
    ok, ncase, wit = m
    ctx.obligations.extend(o for o in sub.obligations if o.status != UNDECIDED)
    ctx.counters['abstract_cases'] += ncase
    f = ctx.fn(MOLITER, FN)
    ctx.emit(rid, ok, MOLITER, f, f'ejection step interpreted on {ncase} model buffers (both pooling methods, up to 4 molecules, every ejectable / not ejectable pattern): ' +
             (text_ok if ok else f'{wit.get("problem")} - case {({k_: v_ for k_, v_ in wit.items() if k_ != "problem"})}'), key=key, witness=wit,
             what='MoleculeIterator ejection step: ' + (wit.get('problem') if wit else ''))


def _main_loop(f):
    loops = [s for s in f.body if isinstance(s, ast.For)]
    for l in loops:
        if 'matePairIterator' in src(l.iter):
            return l
    raise AnalysisError('main read loop of MoleculeIterator.__iter__ not found')


def _is_frag_molecule_ctor(call, fragvar='fragment'):
    return isinstance(call, ast.Call) and (dotted(call.func) or '').endswith('molecule_class') and call.args \
        and isinstance(call.args[0], ast.Name) and call.args[0].id == fragvar


def _events_of(node, state):
    """Consumption events of one CFG node on a path. state: dict(pending: set of local names holding an unplaced
    molecule built from the fragment)."""
    ev = []
    e = own_expr(node)
    if e is None:
        return ev
    a = node.ast
    if node.kind == 'stmt' and isinstance(a, ast.Assign) and len(a.targets) == 1 and isinstance(a.targets[0], ast.Name) \
            and _is_frag_molecule_ctor(a.value):
        ev.append(('pending', a.targets[0].id))
    if node.kind == 'stmt' and isinstance(a, ast.AugAssign) and src(a.target) == 'self.deleted_fragments':
        ev.append(('deleted', None))
    if node.kind == 'stmt' and isinstance(a, ast.Expr):
        v = a.value
        if isinstance(v, (ast.Yield, ast.YieldFrom)) and v.value is not None:
            nm = names_in(v.value)
            ev.append(('yield', nm))
        if isinstance(v, ast.Call) and isinstance(v.func, ast.Attribute) and v.func.attr == 'append' and v.args \
                and _is_frag_molecule_ctor(v.args[0]):
            ev.append(('new', src(v.func.value)))
        elif isinstance(v, ast.Call) and isinstance(v.func, ast.Attribute) and v.func.attr == 'append' and len(v.args) == 1 and isinstance(v.args[0], ast.Name) \
                and src(v.func.value).split('[')[0] in BUFFERS:
            ev.append(('place', v.args[0].id))
    return ev


@rule('C07', 'C07-R2', 'every fragment leaves one iteration of the read loop by exactly one of {yielded as its own '
                       'molecule, counted deleted, joined an existing molecule, appended as new molecule} on every path incl. OverflowError')
def r2(ctx):
    ix = ctx.ix
    f = ctx.fn(MOLITER, FN)
    loop = _main_loop(f)
    # statements after the fragment has been constructed
    body = loop.body
    start = None
    for k, s in enumerate(body):
        if isinstance(s, ast.Assign) and any(isinstance(t, ast.Name) and t.id == 'fragment' for t in s.targets):
            start = k
    if start is None:
        raise AnalysisError('fragment construction not found in the read loop')
    stmts = body[start + 1:]

    def may_raise(kind, a):
        toks = set()
        target = a
        if kind == 'test':
            target = a.test
        elif kind == 'for':
            target = a.iter
        elif kind in ('with_enter', 'with_exit', 'except'):
            return toks
        if isinstance(a, ast.Raise):
            return toks
        for n in walk_no_nested(target):
            if isinstance(n, ast.Call):
                toks.add('<Other>')
                if isinstance(n.func, ast.Attribute) and n.func.attr == 'add_fragment':
                    toks.add('OverflowError')
        return toks

    cfg = CFG(stmts, may_raise=may_raise, is_subclass=ix.is_subclass_name)

    def step(state, node, label):
        env, events = state
        # prune by constant tracking of boolean locals
        if node.kind == 'test' and label in ('true', 'false') and isinstance(node.ast, ast.If):
            v = eval3(node.ast.test, env)
            if v is not UNK and bool(v) != (label == 'true'):
                return None
        evs = list(events)
        if not label.startswith('exc:'):
            env = const_env_step(env, node)
            for e in _events_of(node, None):
                evs.append(e)
            if node.kind == 'test' and label == 'true' and any(isinstance(c.func, ast.Attribute) and c.func.attr == 'add_fragment'
                                                                for c in node_calls(node)):
                evs.append(('joined', None))
        return (env, tuple(evs))

    paths = cfg.paths(state0=({}, ()), step=step, max_paths=200000)
    ctx.counters['paths_enumerated'] += len(paths)
    n_checked = 0
    bad = []
    for p, (env, evs) in paths:
        term = cfg.nodes[p[-1][0]].info
        if term == 'raise':
            continue   # the exception leaves the generator: nothing is silently lost
        n_checked += 1
        pending = set()
        consumed = []
        for kind, x in evs:
            if kind == 'pending':
                pending.add(x)
            elif kind == 'yield':
                hit = pending & set(x)
                if hit:
                    consumed.append('yielded-single')
                    pending -= hit
            elif kind == 'deleted':
                consumed.append('deleted')
            elif kind == 'joined':
                consumed.append('joined')
            elif kind == 'new':
                consumed.append('new-molecule')
            elif kind == 'place' and x in pending:
                consumed.append('new-molecule')
                pending.discard(x)
        if pending:
            consumed.append('LOST(molecule built but never yielded)')
        if len(consumed) != 1 or consumed[0].startswith('LOST'):
            bad.append((consumed, cfg.fmt_path(p)))
    ctx.emit('C07-R2', not bad and n_checked >= 6, MOLITER, loop,
             f'{n_checked} non-raising paths through one read-loop iteration after fragment construction: ' +
             ('each consumes the fragment exactly once' if not bad else
              f'{len(bad)} path(s) consume it {bad[0][0]} times/ways, e.g. {bad[0][1][:600]}'),
             key='fragment-consumed-once', witness={'path': bad[0][1], 'events': bad[0][0]} if bad else None,
             what='a fragment is lost or emitted twice on a path through the read loop')
    # invalid arm: deleted or yielded depending on yield_invalid only
    ctx.exhaustive['C07-R2'] = True


@rule('C07', 'C07-R3', 'every molecule popped from a buffer is finalised and yielded in the same loop body; after the '
                       'read loop every buffer kind is drained completely (finalise + yield each element)')
def r3(ctx):
    _model_or_structural(ctx, 'C07-R3', _r3_structural, 'pop-then-yield:model', 'every ejected molecule is finalised and yielded exactly once')


def _r3_structural(ctx):
    ix = ctx.ix
    f = ctx.fn(MOLITER, FN)
    alias = _aliases(f, ix.module(MOLITER))
    # (a) pop -> yield
    n = 0
    for loop, cont, idx, node in removal_sites(f):
        st = None
        for s in loop.body:
            if any(x is node for x in walk_no_nested(s)):
                st = s
        var = st.targets[0].id if isinstance(st, ast.Assign) and isinstance(st.targets[0], ast.Name) else None
        cfg = CFG(loop.body, exceptions=False)
        ok = var is not None
        fin = yielded = True
        if ok:
            for p, _ in cfg.paths():
                if cfg.nodes[p[-1][0]].info not in ('fall', 'continue'):
                    continue
                seen_pop = False
                y = fz = False
                for nid, _l in p:
                    nn = cfg.nodes[nid]
                    if nn.ast is st:
                        seen_pop = True
                    elif seen_pop and nn.kind == 'stmt' and isinstance(nn.ast, ast.Expr):
                        v = nn.ast.value
                        if isinstance(v, (ast.Yield, ast.YieldFrom)) and v.value is not None and var in names_in(v.value):
                            y = True
                        if isinstance(v, ast.Call) and src(v.func) == f'{var}.__finalise__':
                            fz = True
                if seen_pop and not y:
                    yielded = False
                if seen_pop and not fz:
                    fin = False
        n += 1
        ctx.emit('C07-R3', ok and yielded and fin, MOLITER, node,
                 f'molecule removed by {src(node)[:50]} is ' + ('finalised and yielded on every path of the loop body' if ok and yielded and fin else
                                                               'NOT ' + ('yielded' if not yielded else 'finalised') + ' on some path (popped molecules are lost)'),
                 key=f'pop-then-yield:{src(cont)}')
    # range removals: `X = buf[a:b]; del buf[a:b]; for m in X: finalise, yield`
    for d in walk_no_nested(f):
        if isinstance(d, ast.Delete) and any(isinstance(t, ast.Subscript) and isinstance(t.slice, ast.Slice) for t in d.targets):
            t = [t for t in d.targets if isinstance(t, ast.Subscript) and isinstance(t.slice, ast.Slice)][0]
            if not any(k == 'L' for k, b in buffer_types(f)(t.value)):
                continue
            copies = [a for a in walk_no_nested(f) if isinstance(a, ast.Assign) and isinstance(a.targets[0], ast.Name) and src(a.value) == src(t) and a.lineno < d.lineno]
            ok = False
            if copies:
                v = copies[-1].targets[0].id
                for l in [x for x in walk_no_nested(f) if isinstance(x, ast.For) and src(x.iter) == v and isinstance(x.target, ast.Name) and x.lineno > d.lineno]:
                    e = l.target.id
                    direct_y = any(isinstance(b, ast.Expr) and isinstance(b.value, (ast.Yield, ast.YieldFrom)) and b.value.value is not None and e in names_in(b.value.value) for b in l.body)
                    direct_f = any(isinstance(b, ast.Expr) and isinstance(b.value, ast.Call) and src(b.value.func) == f'{e}.__finalise__' for b in l.body)
                    ok = ok or (direct_y and direct_f)
            n += 1
            ctx.emit('C07-R3', ok, MOLITER, d, f'molecules removed by del {src(t)[:50]} are ' + ('copied first, then each finalised and yielded' if ok else 'NOT all finalised and yielded'),
                     key=f'pop-then-yield:{src(t.value)}')
    ty = buffer_types(f)
    covered = {b for loop, cont, idx, node in removal_sites(f) for k, b in ty(cont) if k == 'L'} | \
              {b for d in walk_no_nested(f) if isinstance(d, ast.Delete) for t in d.targets if isinstance(t, ast.Subscript) and isinstance(t.slice, ast.Slice) for k, b in ty(t.value) if k == 'L'}
    ctx.need('C07-R3', n, 1, 'pop sites')
    if covered != set(BUFFERS):
        raise AnalysisError(f'C07-R3: ejection removals cover the buffers {sorted(covered)}, expected both {sorted(BUFFERS)} (idiom not recognised)')
    # (b) final drain
    main = _main_loop(f)
    after = f.body[f.body.index(main) + 1:]
    buffers = {'self.molecules': False, 'self.molecules_per_cell': False}
    for loopn in [x for s in after for x in walk_no_nested(s) if isinstance(x, ast.For)]:
        elem = None
        bases = set()
        for k, b_ in ty(loopn.iter):
            if k == 'L' and isinstance(loopn.target, ast.Name):
                elem = loopn.target
                bases.add(b_)
            elif k == ('I', ('P', 'M')) and isinstance(loopn.target, ast.Tuple) and len(loopn.target.elts) == 2 and isinstance(loopn.target.elts[1], ast.Name):
                elem = loopn.target.elts[1]
                bases.add(b_)
        if elem is None:
            continue
        ys = [x for x in walk_no_nested(loopn) if isinstance(x, (ast.Yield, ast.YieldFrom)) and x.value is not None and elem.id in names_in(x.value)]
        fz = [x for x in walk_no_nested(loopn) if isinstance(x, ast.Call) and src(x.func) == f'{elem.id}.__finalise__']
        # unconditional: yield statement directly in the loop body
        direct = any(isinstance(s, ast.Expr) and s.value in ys for s in loopn.body)
        if ys and fz and direct:
            for b_ in bases:
                buffers[b_] = True
    for b, ok in buffers.items():
        ctx.emit('C07-R3', ok, MOLITER, main, f'after the read loop buffer {b} is ' + ('drained: every element finalised and yielded' if ok else 'NOT drained'),
                 key=f'final-drain:{b}')
    # (c') every pass starts from empty buffers: an iteration that was abandoned half way must not leave its molecules to absorb the reads of
    # the next pass a second time
    before = f.body[:f.body.index(main)]
    cleared = any(isinstance(s_, ast.Expr) and isinstance(s_.value, ast.Call) and src(s_.value.func) == 'self._clear_cache' for s_ in before) or \
        {'self.molecules', 'self.molecules_per_cell'} <= {src(t_) for s_ in before if isinstance(s_, ast.Assign) for t_ in s_.targets}
    ctx.emit('C07-R3', cleared, MOLITER, main, 'the buffers are emptied before the read loop starts' if cleared else
             'the buffers are not emptied at the start of an iteration: molecules left by an abandoned pass take part in the next one (fragments emitted twice)',
             key='buffers-cleared-at-start', what='MoleculeIterator.__iter__ does not start from empty buffers')
    # (c) the drain is followed by a cache reset, and nothing yields after it
    # (d) per-cell ejection iterates every hash group
    sel = [l for l in walk_no_nested(main) if isinstance(l, ast.For) and any(k in (('I', 'L'), ('I', ('P', 'L'))) and b_ == 'self.molecules_per_cell' for k, b_ in ty(l.iter))]
    ctx.emit('C07-R3', len(sel) >= 1, MOLITER, main, 'the per-cell ejection visits every hash group of molecules_per_cell', key='eject-all-groups', nontrivial=False)


@rule('C07', 'C07-R4', 'ejection selects exactly the molecules whose can_be_yielded(current position) holds, the '
                       'position is the span of the *current* fragment, and can_be_yielded is "other contig, or '
                       'position outside [spanStart - margin, spanEnd + margin]" with the same positive margin on both sides')
def r4(ctx):
    _model_or_structural(ctx, 'C07-R4', _r4_selection, 'selection-guard:model', 'exactly the molecules whose can_be_yielded(span of the current fragment) holds leave the buffers')
    _r4_predicate(ctx)


def _r4_selection(ctx):
    ix = ctx.ix
    f = ctx.fn(MOLITER, FN)
    # selection condition
    n = 0
    ty = buffer_types(f)
    covered = set()
    for loop in [l for l in walk_no_nested(f) if isinstance(l, ast.For) and _enumerate_loop(l)]:
        i, elem, E = _enumerate_loop(loop)
        apps = [c for c in walk_no_nested(loop) if isinstance(c, ast.Call) and isinstance(c.func, ast.Attribute) and c.func.attr == 'append'
                and c.args and isinstance(c.args[0], ast.Name) and c.args[0].id == i]
        if not apps:
            continue
        n += 1
        a = apps[0]
        # innermost enclosing if
        mod = ix.module(MOLITER)
        p = mod.parent.get(mod.parent.get(a))
        st_a = [b_ for b_ in walk_no_nested(loop) if isinstance(b_, ast.Expr) and b_.value is a]
        rc = reach_conds(loop.body, st_a[0]) if st_a else None
        cond = rc[0][0] if rc and len(rc) == 1 and rc[0][1] else None
        covered |= {b_ for k_, b_ in ty(E) if k_ == 'L'}
        ok = cond is not None and isinstance(cond, ast.Call) and isinstance(cond.func, ast.Attribute) and cond.func.attr == 'can_be_yielded' \
            and isinstance(cond.func.value, ast.Name) and isinstance(elem, ast.Name) and cond.func.value.id == elem.id \
            and [src(x) for x in cond.args] == ['current_chrom', 'current_position']
        ctx.emit('C07-R4', ok, MOLITER, a, f'selection in ejection loop over {src(E)} is guarded by `{src(cond) if cond is not None else None}`',
                 key=f'selection-guard:{src(E)}')
        # waiting counter coherent
        dec = [x for x in walk_no_nested(p if isinstance(p, ast.If) else loop) if isinstance(x, ast.AugAssign) and src(x.target) == 'self.waiting_fragments'
               and isinstance(x.op, ast.Sub)]
        okc = bool(dec) and isinstance(elem, ast.Name) and src(dec[0].value) == f'len({elem.id})'
        ctx.emit('C07-R4', okc, MOLITER, a, 'waiting_fragments is decremented by len(molecule) where the molecule is selected', key=f'waiting-counter:{src(E)}', nontrivial=False)
    # inside the read loop a buffer is never emptied wholesale: a molecule leaves only through its own can_be_yielded test
    main_ = _main_loop(f)
    wholesale = []
    for n_ in walk_no_nested(main_):
        if isinstance(n_, ast.Assign) and any(any(k_ == 'L' for k_, b_ in ty(t_)) and not isinstance(t_, ast.Name) for t_ in n_.targets) and isinstance(n_.value, (ast.List, ast.Call)) \
                and (not isinstance(n_.value, ast.List) or not n_.value.elts):
            wholesale.append(n_)
        elif isinstance(n_, ast.Call) and isinstance(n_.func, ast.Attribute) and n_.func.attr == 'clear' and any(k_ in ('L', 'D') for k_, b_ in ty(n_.func.value)):
            wholesale.append(n_)
        elif isinstance(n_, ast.Delete) and any(isinstance(t_, ast.Subscript) and isinstance(t_.slice, ast.Slice) and t_.slice.lower is None and t_.slice.upper is None
                                                and any(k_ == 'L' for k_, b_ in ty(t_.value)) for t_ in n_.targets):
            wholesale.append(n_)
    if wholesale:
        ctx.emit('C07-R4', False, MOLITER, wholesale[0], f'a buffer is emptied wholesale inside the read loop (`{src(wholesale[0])[:50]}`): molecules leave without their own can_be_yielded test '
                 '(a molecule still being assembled is ejected with an older one)', key='selection-guard:wholesale', what='a whole buffer is ejected on the verdict of one molecule')
    ctx.need('C07-R4', n, 1, 'ejection selection loops')
    if covered != set(BUFFERS):
        raise AnalysisError(f'C07-R4: ejection selection covers the buffers {sorted(covered)}, expected both {sorted(BUFFERS)} (idiom not recognised)')
    # provenance of the position
    asg = [s for s in walk_no_nested(f) if isinstance(s, ast.Assign) and isinstance(s.targets[0], ast.Tuple)
           and 'current_position' in names_in(s.targets[0])]
    ok = len(asg) == 1 and src(asg[0].value) == 'fragment.get_span()' and [src(e) for e in asg[0].targets[0].elts][0] == 'current_chrom' \
        and len(asg[0].targets[0].elts) == 3
    ctx.emit('C07-R4', ok, MOLITER, asg[0] if asg else f, 'ejection reference (current_chrom, _, current_position) is the span of the fragment just processed',
             key='position-provenance')


def _r4_predicate(ctx):
    # the predicate
    g = ctx.fn(MOLECULE, 'Molecule.can_be_yielded')
    pos = g.args.args[2].arg
    chrom = g.args.args[1].arg
    roles = {}

    def atom(n):
        if isinstance(n, ast.Compare):
            return None
        try:
            lf = linform(n)
        except Exception:
            return None
        if lf is None:
            return None
        if lf == Lin({pos: 1}):
            return 'pos'
        c = dict(lf.coef)
        if lf.const == 0 and c.get('self.spanStart') == 1 and len(c) == 2:
            other = [k for k in c if k != 'self.spanStart'][0]
            roles['lo'] = (other, c[other])
            return 'lo'
        if lf.const == 0 and c.get('self.spanEnd') == 1 and len(c) == 2:
            other = [k for k in c if k != 'self.spanEnd'][0]
            roles['hi'] = (other, c[other])
            return 'hi'
        return None
    # decision procedure evaluated on every ordering of (pos, spanStart - m, spanEnd + m) for a known position on the molecule's contig,
    # whatever the shape of the function (single return expression, if/elif chain, early returns)
    from ..domains import assignments
    cases = list(assignments(['pos', 'lo', 'hi'], (0, 1, 2), (), lambda e: e['lo'] <= e['hi']))
    bad = []
    same = {f'{chrom} is None': False, f'{chrom} != self.chromosome': False, f'self.chromosome != {chrom}': False, f'{chrom} == self.chromosome': True, f'self.chromosome == {chrom}': True}
    for case, outs in outcomes_by_case(g.body, cases, atom, facts=same):
        want = case['pos'] < case['lo'] or case['pos'] > case['hi']
        got = {v for k, v in outs if k == 'return'}
        if {bool(v) if isinstance(v, (bool, int)) else v for v in got} != {want} or any(k != 'return' for k, v in outs):
            if len(bad) < 3:
                bad.append({'case': case, 'outcomes': sorted(outs, key=str), 'spec': want})
    ncase = len(cases)
    ctx.counters['abstract_cases'] += ncase
    margins_ok = 'lo' in roles and 'hi' in roles and roles['lo'][0] == roles['hi'][0] == 'self.cache_size' \
        and roles['lo'][1] < 0 and roles['hi'][1] == -roles['lo'][1]
    ctx.emit('C07-R4', not bad and margins_ok, MOLECULE, g,
             f'can_be_yielded: {ncase} orderings of (pos, spanStart-m, spanEnd+m) enumerated; ' +
             ('result == pos < lo or pos > hi' if not bad else f'differs from spec on {bad[0]}') +
             f'; margins {roles}', key='can_be_yielded:predicate', witness=bad[0] if bad else None)
    ctx.exhaustive['C07-R4'] = True
    # other-contig arm and None arm
    one = [{'pos': 0, 'lo': 0, 'hi': 0}]
    none_out = {o for c_, outs in outcomes_by_case(g.body, one, atom, facts={f'{chrom} is None': True}) for o in outs}
    other_out = {o for c_, outs in outcomes_by_case(g.body, one, atom, facts={f'{chrom} is None': False, f'{chrom} != self.chromosome': True, f'self.chromosome != {chrom}': True,
                                                                               f'{chrom} == self.chromosome': False, f'self.chromosome == {chrom}': False}) for o in outs}
    ok_none = none_out == {('return', False)}
    ok_other = other_out == {('return', True)}
    ctx.emit('C07-R4', ok_none and ok_other, MOLECULE, g, f'can_be_yielded: unknown position -> {sorted(none_out, key=str)} (keep), other contig -> {sorted(other_out, key=str)} (eject)',
             key='can_be_yielded:guards')


@rule('C07', 'C07-R5', 'the span a molecule is ejected by is maintained on every accepted fragment: spanStart = min(old, '
                       'fragment start), spanEnd = max(old, fragment end), taken from the added fragment\'s span')
def r5(ctx):
    g = ctx.fn(MOLECULE, 'Molecule._add_fragment')
    cfg = CFG(g.body, exceptions=False)
    app = [n for n in cfg.nodes if n.kind == 'stmt' and isinstance(n.ast, ast.Expr) and isinstance(n.ast.value, ast.Call)
           and src(n.ast.value.func) == 'self.fragments.append']
    if len(app) != 1:
        raise AnalysisError('_add_fragment: expected one self.fragments.append')
    span_var = None
    for s in walk_no_nested(g):
        if isinstance(s, ast.Assign) and isinstance(s.value, ast.Call) and src(s.value) == f'{g.args.args[1].arg}.get_span()' \
                and isinstance(s.targets[0], ast.Name):
            span_var = s.targets[0].id
    coords = {}
    for s in walk_no_nested(g):
        if isinstance(s, ast.Assign) and isinstance(s.value, ast.Call) and src(s.value) == f'{g.args.args[1].arg}.get_span()' \
                and isinstance(s.targets[0], ast.Tuple) and len(s.targets[0].elts) == 3 and all(isinstance(e, ast.Name) for e in s.targets[0].elts):
            coords = {k: e.id for k, e in enumerate(s.targets[0].elts)}
    if span_var is None and not coords:
        raise AnalysisError('_add_fragment: span of the added fragment is not read')
    if span_var is not None:
        coords = {k: f'{span_var}[{k}]' for k in range(3)}

    pcount = [0]

    def check(attr, fn, idx):
        """On every path from the append to a normal exit, for both states of the old value (None / a coordinate): the last value stored in
        self.<attr> is the added fragment's coordinate (old None) resp. fn(old, coordinate).  Independent of how the update is written
        (conditional expression, if/else, either branch order)."""
        want_none = coords[idx]
        want_some = {f'{fn}({coords[idx]}, self.{attr})', f'{fn}(self.{attr}, {coords[idx]})'}
        problems = []
        site = None
        for old_none in (True, False):
            def atoms(e):
                t = src(e)
                if t == f'self.{attr} is None':
                    return old_none
                if t == f'self.{attr} is not None':
                    return not old_none
                return UNK

            def step(state, node, label):
                after, val = state
                if node.kind == 'test' and label in ('true', 'false') and isinstance(node.ast, ast.If):
                    v = eval3(node.ast.test, {}, atoms)
                    if v is not UNK and bool(v) != (label == 'true'):
                        return None
                if node.id == app[0].id:
                    after = True
                if node.kind == 'stmt' and isinstance(node.ast, ast.Assign) and any(src(t) == f'self.{attr}' for t in node.ast.targets):
                    val = node.ast
                return (after, val)
            for p_, (after, val) in cfg.paths(state0=(False, None), step=step):
                if cfg.nodes[p_[-1][0]].info not in ('fall', 'return') or not after:
                    continue
                pcount[0] += 1
                got = src(val.value) if val is not None else None
                site = val if val is not None else site
                if (old_none and got != want_none) or (not old_none and got not in want_some):
                    problems.append(f'old value {"None" if old_none else "set"}: stores {got}')
        return not problems, ('; '.join(sorted(set(problems))) or f'{want_none} when unset, {fn}(old, {want_none}) otherwise'), site

    for attr, fn, idx in (('spanStart', 'min', 1), ('spanEnd', 'max', 2)):
        ok, txt, s = check(attr, fn, idx)
        ctx.emit('C07-R5', ok, MOLECULE, s if s is not None else g,
                 f'self.{attr}: ' + (f'{txt} on every path after the append' if ok else f'{txt} - is not {fn}(old, {coords[idx]}) on every accepting path'), key=f'span-update:{attr}')
    ctx.counters['paths_enumerated'] += pcount[0]
    # add_fragment: True <=> _add_fragment was called
    h = ctx.fn(MOLECULE, 'Molecule.add_fragment')
    cfg = CFG(h.body, exceptions=False)
    bad = []
    n = 0
    for p, _ in cfg.paths():
        if cfg.nodes[p[-1][0]].info != 'return':
            continue
        n += 1
        called = any(any(isinstance(c.func, ast.Attribute) and c.func.attr == '_add_fragment' for c in node_calls(cfg.nodes[nid])) for nid, _l in p)
        ret = [cfg.nodes[nid].ast for nid, _l in p if isinstance(cfg.nodes[nid].ast, ast.Return)][-1]
        val = ret.value.value if isinstance(ret.value, ast.Constant) else None
        if val is not called:
            bad.append(cfg.fmt_path(p))
    ctx.counters['paths_enumerated'] += n
    ctx.emit('C07-R5', not bad and n >= 3, MOLECULE, h, f'add_fragment: {n} return paths; ' +
             ('returns True exactly on the paths that stored the fragment' if not bad else f'mismatch on path {bad[0][:300]}'),
             key='add_fragment:return-iff-stored')


@rule('C07', 'C07-R6', 'a fragment joins at most one molecule: wherever the iterator offers a fragment to the buffered molecules, the search stops '
                       'at the first molecule that accepts it, and the per-molecule fragment cap is only tested for a fragment that matches')
def r6(ctx):
    f = ctx.fn(MOLITER, 'MoleculeIterator.__iter__')
    mod = ctx.ix.module(MOLITER)
    sites = [c for c in walk_no_nested(f) if isinstance(c, ast.Call) and isinstance(c.func, ast.Attribute) and c.func.attr == 'add_fragment']
    ctx.need('C07-R6', len(sites), 1, 'add_fragment call sites in MoleculeIterator.__iter__')
    for k, c in enumerate(sorted(sites, key=lambda c: (c.lineno, c.col_offset))):
        # eager evaluation over all molecules (list / set comprehension) lets several molecules accept the same fragment; a generator inside
        # any() stops at the first acceptance and is fine
        p = mod.parent.get(c)
        eager = None
        loop = None
        while p is not None and p is not f:
            if isinstance(p, (ast.ListComp, ast.SetComp, ast.DictComp)):
                eager = p
            if isinstance(p, ast.GeneratorExp):
                pp = mod.parent.get(p)
                if not (isinstance(pp, ast.Call) and isinstance(pp.func, ast.Name) and pp.func.id in ('any', 'next')):
                    eager = p
            if isinstance(p, (ast.For, ast.While)) and loop is None and eager is None:
                loop = p
                break
            p = mod.parent.get(p)
        if eager is not None:
            ctx.emit('C07-R6', False, MOLITER, c, f'`{src(c)[:60]}` is evaluated for every buffered molecule ({type(eager).__name__}): a fragment can join several molecules',
                     key=f'first-acceptor-only:{k}', what='MoleculeIterator: a fragment is added to every molecule that accepts it')
            continue
        if loop is None:
            ctx.emit('C07-R6', True, MOLITER, c, f'`{src(c)[:60]}` is a single offer (not inside a loop over molecules)', key=f'first-acceptor-only:{k}', nontrivial=False)
            continue
        rs = explore(loop.body, mk_atoms({src(c): True}))
        ends = {r['kind'] for r in rs}
        ok = bool(rs) and ends <= {'break', 'return', 'raise'}
        ctx.emit('C07-R6', ok, MOLITER, c, f'after `{src(c)[:60]}` accepted the fragment the loop over the molecules ends on every path ({sorted(ends)})' if ok else
                 f'after `{src(c)[:60]}` accepted the fragment the loop goes on to the next molecule ({sorted(ends)}): the fragment can join several molecules',
                 key=f'first-acceptor-only:{k}', what='MoleculeIterator: a fragment is added to every molecule that accepts it')
        # ... and only there: while no molecule has accepted the fragment the search goes on to the next buffered molecule
        rs0 = explore(loop.body, mk_atoms({src(c): False}))
        early = [r for r in rs0 if r['kind'] in ('break', 'return')]
        ctx.emit('C07-R6', not early, MOLITER, early[0]['stmt'] or c if early else c, 'a molecule that does not accept the fragment never ends the search over the buffered molecules' if not early else
                 f'the search over the buffered molecules ends ({early[0]["kind"]}) although `{src(c)[:50]}` has not accepted the fragment: the molecules behind it are never offered the fragment '
                 'and a duplicate starts a molecule of its own', key=f'every-molecule-offered:{k}', witness={'buffer': ['molecule the loop stops at', 'molecule matching the fragment'],
                 'path': [src(t)[:60] for t in early[0].get('conds', [])][:4]} if early else None, what='MoleculeIterator: the search for a matching molecule stops early')
    # the cap: OverflowError is raised by _add_fragment (i.e. after the match was established), never by add_fragment itself before comparing
    g = ctx.fn(MOLECULE, 'Molecule.add_fragment')
    early = [r_ for r_ in walk_no_nested(g) if isinstance(r_, ast.Raise) and 'OverflowError' in src(r_)]
    ctx.emit('C07-R6', not early, MOLECULE, early[0] if early else g, 'the fragment cap (OverflowError) is tested only for a fragment that matches the molecule (inside _add_fragment)' if not early else
             'add_fragment raises OverflowError before the fragment was compared: a full molecule rejects fragments that belong to other molecules', key='cap-after-match',
             what='Molecule.add_fragment tests the fragment cap before the match')
    h = ctx.fn(MOLECULE, 'Molecule._add_fragment')
    has = any(isinstance(r_, ast.Raise) and 'OverflowError' in src(r_) for r_ in walk_no_nested(h))
    ctx.emit('C07-R6', has, MOLECULE, h, '_add_fragment raises OverflowError when the cap is reached', key='cap-in-_add_fragment', nontrivial=False)
    # the non-hash path compares the candidate with the molecule as a whole (every associated fragment), not with one chosen fragment
    fp = g.args.args[1].arg
    cmps = [c_ for c_ in walk_no_nested(g) if isinstance(c_, ast.Compare) and len(c_.ops) == 1 and isinstance(c_.ops[0], (ast.Eq, ast.NotEq)) and
            fp in {src(c_.left), src(c_.comparators[0])}]
    sides = sorted({src(c_.left) if src(c_.comparators[0]) == fp else src(c_.comparators[0]) for c_ in cmps})
    ok = bool(cmps) and all(not s_.startswith('self.fragments[') for s_ in sides)
    ctx.emit('C07-R6', ok, MOLECULE, cmps[0] if cmps else g, f'add_fragment compares the candidate fragment with {sides}' +
             ('' if ok else ': only one associated fragment is consulted, fragments matching another member are refused'), key='compare-with-molecule',
             what='Molecule.add_fragment compares the candidate with a single associated fragment')


@rule('C07', 'C07-R7', 'which fragments may share a molecule does not depend on what is buffered: the equality the iterator groups by compares the contig (shared with '
                       'C06-R3) - without it a fragment joins a molecule of the previous contig only while that molecule happens to be buffered')
def r7(ctx):
    from ..core import include
    from . import C06
    include(ctx, C06, [C06.r3], 'C07-R7')


@rule('C07', 'C07-R8', 'the position the buffers are checked against is the span of the fragment at hand: both arguments of can_be_yielded come from '
                       '`fragment.get_span()` of the current iteration and are not replaced by state carried from earlier iterations (a running maximum '
                       'survives the change of contig and ejects molecules the moment they are created)')
def r8(ctx):
    f = ctx.fn(MOLITER, 'MoleculeIterator.__iter__')
    calls = [c for c in walk_no_nested(f) if isinstance(c, ast.Call) and isinstance(c.func, ast.Attribute) and c.func.attr == 'can_be_yielded']
    ctx.need('C07-R8', len(calls), 1, 'can_be_yielded calls in the iterator')
    # the elements at hand: targets of the loops of the iterator (the fragment of the read loop is one of them)
    loopvars = {n.id for l in walk_no_nested(f) if isinstance(l, (ast.For, ast.While)) for n in ast.walk(l) if isinstance(n, ast.Name) and isinstance(n.ctx, ast.Store)}       # bound anew in every round
    frag = None
    bad, unsure = [], []
    for c in calls:
        for a in c.args[:2]:
            if not isinstance(a, ast.Name):
                if not (isinstance(a, ast.Subscript) and isinstance(a.value, ast.Call) and isinstance(a.value.func, ast.Attribute) and a.value.func.attr == 'get_span'
                        and isinstance(a.value.func.value, ast.Name) and a.value.func.value.id in loopvars):
                    unsure.append((c, src(a)))
                continue
            defs = [st for st in walk_no_nested(f) if isinstance(st, (ast.Assign, ast.AugAssign)) and any(isinstance(n, ast.Name) and n.id == a.id and isinstance(n.ctx, ast.Store)
                    for t in (st.targets if isinstance(st, ast.Assign) else [st.target]) for n in ast.walk(t))]
            for d in defs:
                v = d.value
                from_span = isinstance(v, ast.Call) and isinstance(v.func, ast.Attribute) and v.func.attr == 'get_span' and isinstance(v.func.value, ast.Name) and v.func.value.id in loopvars
                from_span = from_span or (isinstance(v, ast.Subscript) and isinstance(v.value, ast.Call) and isinstance(v.value.func, ast.Attribute) and v.value.func.attr == 'get_span')
                if from_span:
                    continue
                carried = [n for n in ast.walk(v) if isinstance(n, ast.Attribute) and isinstance(n.value, ast.Name) and n.value.id == 'self' and not isinstance(getattr(n, 'ctx', None), ast.Store)
                           and not any(isinstance(p_, ast.Call) and p_.func is n for p_ in ast.walk(v))]
                if carried or isinstance(d, ast.AugAssign):
                    bad.append((d, a.id, src(carried[0]) if carried else a.id))
                else:
                    unsure.append((d, src(v)))
    for d, nm, st_ in bad[:2]:
        ctx.emit('C07-R8', False, MOLITER, d, f'`{src(d)[:70]}`: the ejection position `{nm}` is taken from `{st_}`, state that outlives the iteration (and the contig): buffered molecules of a new '
                 f'contig at lower coordinates are ejected at once and their duplicates found new molecules - the partition depends on check_eject_every', key='ejection-position-current',
                 what='MoleculeIterator: ejection position carried over from earlier fragments')
    if not bad:
        ctx.emit('C07-R8', not unsure, MOLITER, calls[0], f'{len(calls)} ejection tests use the span of the current fragment' if not unsure else f'cannot tell where `{unsure[0][1][:50]}` comes from',
                 key='ejection-position-current', undecided=bool(unsure))


@rule('C07', 'C07-R9', 'the periodic ejection step as a whole, run by the abstract interpreter on model buffers (up to four molecule tokens, every ejectable / not ejectable '
                       'pattern, one list or several hash groups): exactly the ejectable molecules are yielded, each once and finalised first, the others stay in their own '
                       'buffer in their old order, the fragment counters move by the ejected fragments, can_be_yielded is asked with the span of the current fragment')
def r9(ctx):
    f = ctx.fn(MOLITER, FN)
    m = ejection_model(ctx)
    if m is None:
        ctx.emit('C07-R9', True, MOLITER, f, 'the ejection step uses constructs outside the interpreted subset: decided by the structural rules R1 / R3 / R4 only', key='ejection-step-model', nontrivial=False)
        return
    ok, n, wit = m
    ctx.counters['interpreted_cases'] = ctx.counters.get('interpreted_cases', 0) + n
    ctx.emit('C07-R9', ok, MOLITER, f, f'{n} model buffers (both pooling methods): the step yields exactly the ejectable molecules and leaves the rest in place' if ok else f'model buffer {wit}',
             key='ejection-step-model', witness=wit, what='MoleculeIterator.__iter__: the ejection step emits a molecule that cannot be yielded yet / loses or duplicates one')


def _buffer_resets(ctx, stmts, depth=0):
    """`self.<attr>` names that the statements re-bind to an empty container (directly, under a test of the pooling method, or in a helper method called on self)"""
    out = set()
    for st in stmts:
        if isinstance(st, ast.Assign) and len(st.targets) == 1 and isinstance(st.targets[0], ast.Attribute) and src(st.targets[0].value) == 'self':
            v = st.value
            empty = (isinstance(v, (ast.List, ast.Dict, ast.Set, ast.Tuple)) and not (getattr(v, 'elts', None) or getattr(v, 'keys', None))) or \
                (isinstance(v, ast.Call) and last_name(dotted(v.func) or '') in ('list', 'dict', 'set', 'defaultdict', 'OrderedDict', 'deque') and
                 not any(not (isinstance(a, (ast.Name, ast.Attribute, ast.Lambda))) for a in v.args))
            if empty:
                out.add(st.targets[0].attr)
        elif isinstance(st, ast.Expr) and isinstance(st.value, ast.Call) and isinstance(st.value.func, ast.Attribute):
            c = st.value
            if c.func.attr == 'clear' and isinstance(c.func.value, ast.Attribute) and src(c.func.value.value) == 'self':
                out.add(c.func.value.attr)
            elif src(c.func.value) == 'self' and depth < 2:
                try:
                    g = ctx.fn(MOLITER, f'MoleculeIterator.{c.func.attr}')
                except AnalysisError:
                    continue
                out |= _buffer_resets(ctx, g.body, depth + 1)
        elif isinstance(st, ast.If) and 'pooling_method' in src(st.test):
            out |= _buffer_resets(ctx, st.body, depth) | _buffer_resets(ctx, st.orelse, depth)
    return out


@rule('C07', 'C07-R10', 'every pass over the iterator starts from empty buffers: before the read loop __iter__ re-binds (or clears) the molecule buffer of either pooling method - '
                        'molecules left behind by a pass that was abandoned half way would otherwise be joined by, and emitted with, the fragments of the next pass')
def r10(ctx):
    f = ctx.fn(MOLITER, FN)
    loop = _main_loop(f)
    pre = f.body[:f.body.index(loop)]
    got = _buffer_resets(ctx, pre)
    # the buffers the read loop works on
    used = {x.attr for x in ast.walk(loop) if isinstance(x, ast.Attribute) and src(x.value) == 'self' and x.attr.startswith('molecules')}
    ctx.need('C07-R10', len(used), 2, 'molecule buffers used by the read loop')
    for b in sorted(used):
        ok = b in got
        ctx.emit('C07-R10', ok, MOLITER, f, f'self.{b} is emptied before the read loop starts' if ok else
                 f'self.{b} is not emptied when a pass starts: after `for m in it: break` the molecules buffered so far are still there, the next `for m in it` adds the same fragments to them again',
                 key=f'pass-starts-empty:{b}', witness={'history': ['iterate, stop after the first molecule', 'iterate again'], 'buffer at the start of pass 2': 'molecules of pass 1'} if not ok else None,
                 what='MoleculeIterator.__iter__ does not reset its buffers')


META = {
    'text': ('Decides, for every path of MoleculeIterator.__iter__: the ejection loops remove exactly the molecules they '
             'selected (index compensation is the linear form j - i over enumerate positions of the same container, in '
             'both pooling modes); every fragment leaves one read-loop iteration by exactly one of {yielded as own '
             'molecule, deleted, joined, new molecule} including the OverflowError edge; popped molecules are finalised '
             'and yielded; both buffer kinds are drained after the input ends; the ejection predicate is exactly "other '
             'contig or position outside [spanStart - m, spanEnd + m]" (decision procedure evaluated on all orderings) at the current '
             'fragment; the span is extended on every accepted fragment; a fragment is offered to the buffered molecules only until the first '
             'accepts it, the fragment cap is tested after the match, and the non-hash path compares with every member. Does NOT decide that the '
             'margin suffices for the data at hand, nor equality of partitions across schedules at runtime.'),
    'technique': 'static analysis: linear-form check of removal indices, exception-aware path enumeration of the loop body with constant tracking, abstract interpretation of the ejection predicate over all orderings, who-may-raise and first-acceptor path rules; model-based abstract execution of the ejection step (model buffers of <= 4 molecule tokens, every ejectable pattern, both pooling methods) where the structural reading cannot decide; must-reset check of the buffers at the start of a pass',
    'design_ref': 'DESIGN.md section 5, C07',
}


from . import shared as _shared
_shared.register('C07', 'C07')
