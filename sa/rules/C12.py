"""C12 - binned molecule counting is independent of the job split (ownership, job alignment, bin index, filters)."""
import ast

from ..core import rule
from ..index import AnalysisError, dotted, src, walk_no_nested, names_in
from ..cfg import CFG, UNK
from ..domains import check_pred, check_exprs, linform, Lin, rounding
from ..util import node_calls, own_expr, explore
from .slots import BINCOUNTS

CF = 'count_fragments_binned'


def _count_loop(ctx):
    f = ctx.fn(BINCOUNTS, CF)
    loops = [l for l in walk_no_nested(f) if isinstance(l, ast.For) and '.fetch(' in src(l.iter)]
    if len(loops) != 1:
        raise AnalysisError(f'{CF}: fetch loop not found')
    return f, loops[0]


@rule('C12', 'C12-R1', 'a job counts exactly the reads whose site lies in its half-open interval [start, end)')
def r1(ctx):
    f, loop = _count_loop(ctx)
    cands = [s for s in loop.body if isinstance(s, ast.If) and len(s.body) == 1 and isinstance(s.body[0], (ast.Continue, ast.Break)) and {'start', 'end'} <= names_in(s.test)]
    if len(cands) != 1:
        ctx.emit('C12-R1', False, BINCOUNTS, loop, f'ownership test not found ({len(cands)} candidates)', key='ownership', undecided=True)
        return
    t = cands[0].test
    ncase, bad = check_pred(t, lambda e: not (e['start'] <= e['site'] < e['end']), symbols=['site', 'start', 'end'], constraint=lambda e: e['start'] < e['end'])
    ctx.counters['abstract_cases'] += ncase
    eff = type(cands[0].body[0]).__name__
    ctx.emit('C12-R1', not bad and eff == 'Continue', BINCOUNTS, cands[0], f'skip test `{src(t)}` over {ncase} orderings ' +
             ('== site outside [start, end)' if not bad else f'differs from half-open ownership at {bad[0]["case"]}: a site on a job boundary is counted by ' +
              ('two jobs' if not bad[0]['code'] else 'no job')) + ('' if eff == 'Continue' else f'; effect `{eff.lower()}`'),
             key='ownership', witness=bad[0] if bad else None, what=f'{CF}: job ownership test is not the half-open interval')
    ctx.exhaustive['C12-R1'] = True


@rule('C12', 'C12-R2', 'job boundaries are integer multiples of the bin size (start 0, step = bin_size * bins_per_job, end = start + step), '
                       'so no bin is shared between jobs and the non-additive dict.update merge is safe')
def r2(ctx):
    g = ctx.fn(BINCOUNTS, 'generate_jobs')
    rngs = [c for c in walk_no_nested(g) if isinstance(c, ast.Call) and dotted(c.func) == 'range']
    tups = [t for t in walk_no_nested(g) if isinstance(t, ast.Tuple) and len(t.elts) == 3 and isinstance(t.ctx, ast.Load)]
    ok = False
    detail = 'range(...) of job starts not found'
    bs = [a.arg for a in g.args.args if a.arg == 'bin_size']
    if len(rngs) == 1 and len(rngs[0].args) == 3 and bs:
        r0, r1_, step = rngs[0].args

        def is_multiple(e):
            return isinstance(e, ast.BinOp) and isinstance(e.op, ast.Mult) and 'bin_size' in (src(e.left), src(e.right))
        ok_step = is_multiple(step)
        ok_start = isinstance(r0, ast.Constant) and r0.value == 0
        sv = None
        for comp in [x for x in walk_no_nested(g) if isinstance(x, (ast.GeneratorExp, ast.ListComp))]:
            for gen in comp.generators:
                if gen.iter is rngs[0] and isinstance(gen.target, ast.Name):
                    sv = gen.target.id
        for l_ in [x for x in walk_no_nested(g) if isinstance(x, ast.For)]:
            if l_.iter is rngs[0] and isinstance(l_.target, ast.Name):
                sv = l_.target.id
        ok_end = False
        endtxt = None
        for t in tups:
            if sv and src(t.elts[1]) == sv:
                endtxt = src(t.elts[2])
                d = t.elts[2]
                ok_end = isinstance(d, ast.BinOp) and isinstance(d.op, ast.Add) and src(d.left) == sv and src(d.right) == src(step)
        ok = ok_step and ok_start and ok_end
        detail = f'job starts range({src(r0)}, {src(r1_)}, {src(step)}), end = {endtxt}'
    ctx.emit('C12-R2', ok, BINCOUNTS, g, detail + (': boundaries are multiples of bin_size' if ok else ': boundaries are NOT guaranteed to be multiples of bin_size (a bin can be split over two jobs; dict.update then drops counts)'),
             key='job-alignment', what='generate_jobs: job boundaries are not multiples of the bin size')
    # the merge
    o = ctx.fn(BINCOUNTS, 'obtain_counts')
    upd = [c for c in walk_no_nested(o) if isinstance(c, ast.Call) and isinstance(c.func, ast.Attribute) and c.func.attr == 'update' and 'counts[' in src(c.func.value)]
    ctx.emit('C12-R2', True, BINCOUNTS, upd[0] if upd else o, 'obtain_counts merges per (bin, sample) with ' + ('dict.update (non additive): sound only with aligned jobs and half-open ownership (C12-R1/R2)' if upd else 'an additive merge'),
             key='merge-kind', nontrivial=False)
    # commands carry the same start/end
    gc = ctx.fn(BINCOUNTS, 'generate_commands')
    ys = [y for y in walk_no_nested(gc) if isinstance(y, ast.Yield) and isinstance(y.value, ast.Tuple)]
    cf = ctx.fn(BINCOUNTS, CF)
    unpack = [s for s in cf.body if isinstance(s, ast.Assign) and isinstance(s.targets[0], ast.Tuple) and src(s.value) == cf.args.args[0].arg]
    ok = False
    if len(ys) == 1 and len(unpack) == 1 and (len(ys[0].value.elts) == len(unpack[0].targets[0].elts) or any(isinstance(e_, ast.Starred) for e_ in ys[0].value.elts)):
        params = {a.arg for a in gc.args.args}
        # roles of the produced elements: a parameter of generate_commands (same name on the consuming side), the k-th field of the job
        # tuple (contig, start, end), or the loop variable over the input files (the consumer's alignments_path)
        job_fields = {}
        file_vars = set()
        for l_ in [x for x in walk_no_nested(gc) if isinstance(x, ast.For)]:
            if 'generate_jobs' in src(l_.iter):
                tgt = l_.target
                if isinstance(tgt, ast.Tuple) and len(tgt.elts) == 2 and isinstance(tgt.elts[1], ast.Tuple):
                    tgt = tgt.elts[1]
                if isinstance(tgt, ast.Tuple):
                    job_fields = {e.id: ('contig', 'start', 'end')[k] for k, e in enumerate(tgt.elts) if isinstance(e, ast.Name) and k < 3}
            elif isinstance(l_.target, ast.Name):
                file_vars.add(l_.target.id)
        ok = True
        # `*job` of the un-split job tuple stands for its three fields
        job_whole = set()
        for l_ in [x for x in walk_no_nested(gc) if isinstance(x, ast.For) and 'generate_jobs' in src(x.iter)]:
            tgt = l_.target
            if isinstance(tgt, ast.Tuple) and len(tgt.elts) == 2 and isinstance(tgt.elts[1], ast.Name):
                tgt = tgt.elts[1]
            if isinstance(tgt, ast.Name):
                job_whole.add(tgt.id)
        produced = []
        for e in ys[0].value.elts:
            if isinstance(e, ast.Starred) and isinstance(e.value, ast.Name) and e.value.id in job_whole:
                produced.extend(['<contig>', '<start>', '<end>'])
            else:
                produced.append(src(e))
        ok = len(produced) == len(unpack[0].targets[0].elts)
        for en, u in zip(produced, unpack[0].targets[0].elts):
            un = src(u)
            if en in ('<contig>', '<start>', '<end>'):
                ok = ok and en[1:-1] == un
            elif en in job_fields:
                ok = ok and job_fields[en] == un
            elif en in file_vars:
                ok = ok and un == 'alignments_path'
            elif en in params:
                ok = ok and en == un
            else:
                ok = False
    ctx.emit('C12-R2', ok, BINCOUNTS, ys[0] if ys else gc, 'command tuples are produced and unpacked with the same field order', key='command-fields')
    call = [c for c in walk_no_nested(gc) if isinstance(c, ast.Call) and dotted(c.func) == 'generate_jobs']
    kw = {k.arg: src(k.value) for k in call[0].keywords} if call else {}
    ok = kw.get('bin_size') == 'bin_size' and kw.get('bins_per_job') == 'bins_per_job'
    ctx.emit('C12-R2', ok, BINCOUNTS, call[0] if call else gc, 'jobs are generated with the same bin_size the counter bins with', key='same-bin-size', nontrivial=False)


def _count_aliases(loop):
    """locals bound to the per-bin sample dictionary: `X = counts.setdefault(B, {})` / `X = counts[B]`"""
    out = set()
    for s_ in walk_no_nested(loop):
        if isinstance(s_, ast.Assign) and len(s_.targets) == 1 and isinstance(s_.targets[0], ast.Name):
            v = s_.value
            if (isinstance(v, ast.Call) and isinstance(v.func, ast.Attribute) and v.func.attr == 'setdefault' and src(v.func.value) == 'counts' and len(v.args) == 2
                    and isinstance(v.args[1], ast.Dict) and not v.args[1].keys) or (isinstance(v, ast.Subscript) and src(v.value) == 'counts'):
                out.add(s_.targets[0].id)
    return out


def _flat_counters(f):
    """locals holding one counter per (bin, sample) pair - `obs = Counter()` ... `obs[bin_id, sample] += 1` - that are unfolded into the
    nested result afterwards (`for (b, s), n in obs.items(): counts.setdefault(b, {})[s] = n`)"""
    out = set()
    for s_ in walk_no_nested(f):
        if isinstance(s_, ast.Assign) and len(s_.targets) == 1 and isinstance(s_.targets[0], ast.Name) and isinstance(s_.value, ast.Call) \
                and (src(s_.value).replace('collections.', '') in ('Counter()', 'defaultdict(int)')):
            nm = s_.targets[0].id
            unfolded = any(isinstance(l, ast.For) and src(l.iter) == f'{nm}.items()' and isinstance(l.target, ast.Tuple) and len(l.target.elts) == 2 and isinstance(l.target.elts[0], ast.Tuple)
                           and any(isinstance(a_, ast.Assign) and src(a_.value) == src(l.target.elts[1]) and 'counts' in src(a_.targets[0]) for a_ in walk_no_nested(l))
                           for l in walk_no_nested(f))
            if unfolded:
                out.add(nm)
    return out


def _is_count_event(a, aliases):
    """the statement adds exactly one to a (bin, sample) counter: `counts[B][S] += 1`, the initialising `counts[B][S] = 1`, or
    `D[S] = D.get(S, 0) + 1` with D the per-bin dictionary"""
    if isinstance(a, ast.AugAssign) and isinstance(a.op, ast.Add) and src(a.value) == '1' and isinstance(a.target, ast.Subscript):
        base = a.target.value
        if isinstance(base, ast.Name) and ('flat:' + base.id) in aliases:
            return isinstance(a.target.slice, ast.Tuple) and len(a.target.slice.elts) == 2
        return (isinstance(base, ast.Subscript) and src(base.value) == 'counts') or (isinstance(base, ast.Name) and base.id in aliases)
    if isinstance(a, ast.Assign) and len(a.targets) == 1 and isinstance(a.targets[0], ast.Subscript):
        t = a.targets[0]
        base = t.value
        per_bin = (isinstance(base, ast.Subscript) and src(base.value) == 'counts') or (isinstance(base, ast.Name) and base.id in aliases)
        if not per_bin:
            return False
        if src(a.value) == '1':
            return True
        want = {f'{src(base)}.get({src(t.slice)}, 0) + 1', f'1 + {src(base)}.get({src(t.slice)}, 0)'}
        return src(a.value) in want
    return False


@rule('C12', 'C12-R3', 'the bin of a read is floor(site / bin_size): bin start = bin_size * index, bin end = min(bin_size * (index + 1), contig size)')
def r3(ctx):
    f, loop = _count_loop(ctx)
    env = {s.targets[0].id: s.value for s in loop.body if isinstance(s, ast.Assign) and isinstance(s.targets[0], ast.Name)}
    bi = env.get('bin_i')
    r = rounding(bi, nonneg=lambda q: True) if bi is not None else None   # site >= 0: reference coordinates
    ok = r is not None and r.den == Lin({'bin_size': 1}) and r.num == Lin({'site': 1}) and r.within(-1, False, 0, True)
    ctx.emit('C12-R3', ok, BINCOUNTS, loop, f'bin index `{src(bi) if bi is not None else None}`: value - site/bin_size in {r.interval() if r else "?"} (site >= 0)' +
             ('' if ok else ' - not floor(site / bin_size)'), key='bin-index')
    bs, be = env.get('bin_start'), env.get('bin_end')
    okb = bs is not None and be is not None and src(bs).replace(' ', '') in ('bin_size*bin_i', 'bin_i*bin_size') and \
        src(be).replace(' ', '') in ('min(bin_size*(bin_i+1),contig_size)', 'min(contig_size,bin_size*(bin_i+1))')
    ctx.emit('C12-R3', okb, BINCOUNTS, loop, f'bin = [{src(bs) if bs is not None else None}, {src(be) if be is not None else None})', key='bin-bounds')
    # site provenance: DS tag, else alignment start
    tr = [t for t in loop.body if isinstance(t, ast.Try)]
    ds_locals = {s_.targets[0].id for s_ in walk_no_nested(loop) if isinstance(s_, ast.Assign) and len(s_.targets) == 1 and isinstance(s_.targets[0], ast.Name) and "get_tag('DS')" in src(s_.value)}
    ok = bool(tr) and any(isinstance(s_, ast.Assign) and src(s_.targets[0]) == 'site' and ("get_tag('DS')" in src(s_.value) or (names_in(s_.value) & ds_locals)) for s_ in walk_no_nested(tr[0]))
    ctx.emit('C12-R3', ok, BINCOUNTS, tr[0] if tr else loop, 'site is the DS tag of the read (fallback: alignment start)', key='site-provenance', nontrivial=False)
    # exactly one increment per counted read
    cfg = CFG(loop.body, exceptions=False)
    aliases = _count_aliases(loop) | {'flat:' + x for x in _flat_counters(f)}
    bad = []
    n = 0
    for p, _ in cfg.paths():
        if cfg.nodes[p[-1][0]].info != 'fall':
            continue
        n += 1
        inc = 0
        for nid, _l in p:
            a = cfg.nodes[nid].ast
            if cfg.nodes[nid].kind == 'stmt' and _is_count_event(a, aliases):
                inc += 1
        if inc != 1:
            bad.append(inc)
    ctx.counters['paths_enumerated'] += n
    ctx.emit('C12-R3', not bad and n > 0, BINCOUNTS, loop, f'{n} paths reach the end of the loop body: each adds exactly 1 to counts[bin][sample]' if not bad else f'paths adding {sorted(set(bad))} counts', key='one-count-per-read')


@rule('C12', 'C12-R4', 'the read filter rejects on read-1, qc-fail, duplicate (dedup), non-unique mp and MAPQ below the threshold, can only '
                       'reject, and the counter calls it with read1_only=True and the caller\'s min_mq / dedup')
def r4(ctx):
    g = ctx.fn(BINCOUNTS, 'read_counts')
    # read_counts as decision procedure: starting from a read that passes everything, one filter at a time is varied over all combinations of
    # its atoms; the read is rejected iff the documented predicate holds - however the tests are nested, split or moved into a closure
    import itertools
    from ..util import outcomes_by_case
    BASE = {'read1_only': False, 'read.is_read1': True, 'read is None': False, 'read.is_qcfail': False, 'ignore_qcfail': False, 'dedup': False, 'read.is_duplicate': False,
            'ignore_mp': False, "read.has_tag('mp')": False, "read.get_tag('mp') != 'unique'": False, 'min_mq is not None': False, 'min_mq is None': True, 'verbose': False}
    atom = lambda x: None if isinstance(x, ast.Compare) else {'read.mapping_quality': 'mq', 'min_mq': 'min'}.get(src(x))
    outs0 = {o for c_, os_ in outcomes_by_case(g.body, [{'mq': 1, 'min': 0}], atom, facts=dict(BASE)) for o in os_}
    ctx.emit('C12-R4', outs0 == {('return', True)}, BINCOUNTS, g, f'read_counts: a read that fails no filter is counted on every path ({sorted(map(str, outs0))}) - filters can only reject', key='reject-only')
    specs = [
        ('read1', {'read1_only': 'o', 'read.is_read1': 'r1'}, lambda e: e['o'] and not e['r1']),
        ('qcfail', {'read.is_qcfail': 'q', 'ignore_qcfail': 'ig'}, lambda e: e['q'] and not e['ig']),
        ('duplicate', {'dedup': 'o', 'read.is_duplicate': 'dup'}, lambda e: e['o'] and e['dup']),
        ('mp', {'ignore_mp': 'ig', "read.has_tag('mp')": 'h', "read.get_tag('mp') != 'unique'": 'nu'}, lambda e: (not e['ig']) and e['h'] and e['nu']),
        ('mapq', {'min_mq is not None': 'has'}, lambda e: e['has'] and e['mq'] < e['min']),
    ]
    for name, ren, spec in specs:
        bools = sorted(set(ren.values()))
        bad = []
        ncase = 0
        for bv in itertools.product((True, False), repeat=len(bools)):
            benv = dict(zip(bools, bv))
            facts = dict(BASE)
            for t_, b_ in ren.items():
                facts[t_] = benv[b_]
            if name == 'mapq':
                facts['min_mq is None'] = not benv['has']
            numcases = [{'mq': m_, 'min': n_} for m_ in range(0, 3) for n_ in range(0, 3)] if name == 'mapq' else [{'mq': 1, 'min': 0}]
            for case, outs in outcomes_by_case(g.body, numcases, atom, facts=facts):
                ncase += 1
                e = dict(benv, **case)
                want = not spec(e)
                got = {bool(v) if isinstance(v, (bool, int)) else v for k_, v in outs if k_ == 'return'}
                if (got != {want} or any(k_ != 'return' for k_, v in outs)) and len(bad) < 3:
                    bad.append({'case': e, 'outcomes': sorted(map(str, outs)), 'documented_accept': want})
        ctx.counters['abstract_cases'] += ncase
        key = {'mapq': 'mapq-threshold', 'duplicate': 'dedup-filter'}.get(name, f'filter:{name}')
        ctx.emit('C12-R4', not bad, BINCOUNTS, g, f'filter `{name}`: over {ncase} cases the read is rejected iff the documented predicate holds' if not bad else
                 f'filter `{name}` differs at {bad[0]["case"]}: outcomes {bad[0]["outcomes"]}, documented: {"count" if bad[0]["documented_accept"] else "reject"}',
                 key=key, witness=bad[0] if bad else None, nontrivial=name in ('mapq', 'duplicate'))
    # the filters are independent: over every combination of all their atoms at once the read is counted iff NO documented predicate holds (a filter that is
    # only consulted when another one did not apply - `if mp ...: elif mapq ...` - lets reads through that the threshold should stop)
    allren = {}
    for name, ren, spec in specs:
        for t_, b_ in ren.items():
            allren[t_] = f'{name}.{b_}'
    names = sorted(set(allren.values()))
    bad, ncase = [], 0
    for bv in itertools.product((True, False), repeat=len(names)):
        benv = dict(zip(names, bv))
        facts = dict(BASE)
        for t_, b_ in allren.items():
            facts[t_] = benv[b_]
        facts['min_mq is None'] = not benv['mapq.has']
        for case, outs in outcomes_by_case(g.body, [{'mq': 0, 'min': 1}, {'mq': 1, 'min': 1}], atom, facts=facts):
            ncase += 1
            rejected_by = [name for name, ren, spec in specs if spec(dict({b_: benv[f'{name}.{b_}'] for b_ in set(ren.values())}, **case))]
            want = not rejected_by
            got = {bool(v) if isinstance(v, (bool, int)) else v for k_, v in outs if k_ == 'return'}
            if (got != {want} or any(k_ != 'return' for k_, v in outs)) and len(bad) < 1:
                bad.append({'case': {k_: v_ for k_, v_ in dict(benv, **case).items()}, 'outcomes': sorted(map(str, outs)), 'documented': 'count' if want else f'reject ({rejected_by})'})
    ctx.counters['abstract_cases'] += ncase
    ctx.emit('C12-R4', not bad, BINCOUNTS, g, f'all filters together: over {ncase} combinations of every filter atom the read is counted iff no filter predicate holds' if not bad else
             f'filters interfere at {bad[0]["case"]}: outcomes {bad[0]["outcomes"]}, documented: {bad[0]["documented"]}', key='filters-independent', witness=bad[0] if bad else None,
             what='read_counts: a filter is skipped depending on the outcome of another filter')
    f, loop = _count_loop(ctx)
    calls = [c for c in walk_no_nested(loop) if isinstance(c, ast.Call) and dotted(c.func) == 'read_counts']
    kw = {k.arg: src(k.value) for k in calls[0].keywords} if calls else {}
    # `read_counts(read, **settings)` with settings a dict literal built once per job
    for k_ in (calls[0].keywords if calls else []):
        if k_.arg is None and isinstance(k_.value, (ast.Name, ast.Dict)):
            dd = [k_.value] if isinstance(k_.value, ast.Dict) else \
                [s_.value for s_ in walk_no_nested(f) if isinstance(s_, ast.Assign) and len(s_.targets) == 1 and src(s_.targets[0]) == k_.value.id and isinstance(s_.value, ast.Dict)]
            if len(dd) == 1:
                kw.pop(None, None)
                kw.update({kk.value: src(vv) for kk, vv in zip(dd[0].keys, dd[0].values) if isinstance(kk, ast.Constant)})
    ok = len(calls) == 1 and kw.get('read1_only') == 'True' and kw.get('min_mq') == 'min_mq' and kw.get('dedup') == 'dedup' and src(calls[0].args[0]) == (loop.target.elts[1].id if isinstance(loop.target, ast.Tuple) else loop.target.id)
    ctx.emit('C12-R4', ok, BINCOUNTS, calls[0] if calls else loop, f'counter filters with read_counts({", ".join(f"{k}={v}" for k, v in kw.items())})', key='filter-call')
    # option wiring: an option handed to the filter that is looked up in the job's option dictionary is looked up under its own name
    # (`ignore_mp=kwargs.get('ignore_mp')`); a look-up under another key silently couples two options
    miswired = []
    for name_, val_ in kw.items():
        if name_ is None:
            continue
        v_ = val_
        dd = [s_.value for s_ in walk_no_nested(f) if isinstance(s_, ast.Assign) and len(s_.targets) == 1 and src(s_.targets[0]) == v_]
        e_ = dd[-1] if dd else None
        if e_ is None:
            try:
                e_ = ast.parse(v_, mode='eval').body
            except SyntaxError:
                continue
        for c_ in ast.walk(e_):
            if isinstance(c_, ast.Call) and isinstance(c_.func, ast.Attribute) and c_.func.attr in ('get', 'pop') and c_.args and isinstance(c_.args[0], ast.Constant) and isinstance(c_.args[0].value, str):
                if c_.args[0].value != name_:
                    miswired.append((name_, c_.args[0].value))
            if isinstance(c_, ast.Subscript) and isinstance(c_.slice, ast.Constant) and isinstance(c_.slice.value, str) and c_.slice.value != name_:
                miswired.append((name_, c_.slice.value))
    ctx.emit('C12-R4', not miswired, BINCOUNTS, calls[0] if calls else loop, 'filter options are looked up under their own names' if not miswired else
             f'filter option `{miswired[0][0]}` is read from the job option `{miswired[0][1]}`: setting one option silently switches the other', key='filter-option-wiring',
             what='count_fragments_binned: a filter option is wired to the wrong job option')
    mod = ctx.ix.module(BINCOUNTS)
    p = mod.parent[calls[0]] if calls else None
    while p is not None and not isinstance(p, ast.If):
        p = mod.parent.get(p)
    ok = p is not None and isinstance(p.test, ast.UnaryOp) and isinstance(p.test.op, ast.Not) and isinstance(p.body[0], ast.Continue)
    ctx.emit('C12-R4', ok, BINCOUNTS, p if p is not None else loop, 'a read failing the filter is skipped', key='filter-skip', nontrivial=False)


@rule('C12', 'C12-R5', 'reads are fetched from [max(0, start - margin), min(end + margin, contig size)): every record whose site can lie in the job is seen')
def r5(ctx):
    f, loop = _count_loop(ctx)
    env = {}
    for s in walk_no_nested(f):
        if isinstance(s, ast.Assign) and isinstance(s.targets[0], ast.Name) and s.targets[0].id in ('f_start', 'f_end'):
            env[s.targets[0].id] = s.value
    if set(env) != {'f_start', 'f_end'}:
        raise AnalysisError(f'{CF}: f_start / f_end not found')
    ren = {'start': 's', 'end': 'e', 'max_fragment_size': 'M', 'contig_size': 'L'}
    ncase, bad = check_exprs([env['f_start'], env['f_end']], lambda e: (max(0, e['s'] - e['M']), min(e['e'] + e['M'], e['L'])), ['s', 'e', 'M', 'L'],
                             constraint=lambda e: 0 <= e['s'] < e['e'] and e['M'] >= 0 and e['L'] > e['s'], atom_name=lambda x: ren.get(src(x)), extra_consts=(0,))
    ctx.counters['abstract_cases'] += ncase
    ctx.emit('C12-R5', not bad, BINCOUNTS, loop, f'fetch window ({src(env["f_start"])}, {src(env["f_end"])}) over {ncase} cases ' +
             ('== (max(0, start - M), min(end + M, contig size))' if not bad else f'differs at {bad[0]["case"]}: got {bad[0]["code"]}, expected {bad[0]["spec"]} (records stored outside the job but with a site inside are missed)'),
             key='fetch-window', witness=bad[0] if bad else None)
    it = loop.iter
    call = [c for c in walk_no_nested(it) if isinstance(c, ast.Call) and isinstance(c.func, ast.Attribute) and c.func.attr == 'fetch']
    kw = {k.arg: src(k.value) for k in call[0].keywords} if call else {}
    ok = kw.get('start') == 'f_start' and kw.get('stop') == 'f_end' and kw.get('contig') == 'contig'
    ctx.emit('C12-R5', ok, BINCOUNTS, loop, f'fetch(contig={kw.get("contig")}, start={kw.get("start")}, stop={kw.get("stop")})', key='fetch-call', nontrivial=False)
    # any other look at the alignments of the region (count / pileup / a second fetch that decides whether the job is worth doing) has to use the
    # same widened window: a read stored just outside the job can have its site inside
    if call and isinstance(call[0].func.value, ast.Name):
        handle = call[0].func.value.id
        others = [c for c in walk_no_nested(f) if isinstance(c, ast.Call) and isinstance(c.func, ast.Attribute) and isinstance(c.func.value, ast.Name) and c.func.value.id == handle
                  and c is not call[0] and c.func.attr in ('count', 'fetch', 'pileup', 'count_coverage', 'find_introns')]
        for c in others:
            okw = {k.arg: src(k.value) for k in c.keywords}
            pos = [src(a) for a in c.args]
            st_ = okw.get('start', pos[1] if len(pos) > 1 else None)
            en_ = okw.get('stop', okw.get('end', pos[2] if len(pos) > 2 else None))
            if st_ is None and en_ is None:
                continue            # whole file / whole contig
            good = st_ == kw.get('start') and en_ == kw.get('stop')
            ctx.emit('C12-R5', good, BINCOUNTS, c, f'`{src(c)[:80]}` looks at ({st_}, {en_})' + ('' if good else f', not at the fetch window ({kw.get("start")}, {kw.get("stop")}): what it finds (e.g. "no alignments '
                     f'here") says nothing about reads stored just outside the job whose site lies inside - the counts then depend on where the job borders fall'),
                     key='region-queries-use-fetch-window', what=f'{CF}: region query on the unpadded job window')


@rule('C12', 'C12-R6', 'a read that passed the filters and lies in the job is counted on every path: between the ownership test and the increment nothing '
                       'skips it (also not a missing optional tag), and results of different jobs are merged per (bin, sample), never by replacing a whole bin')
def r6(ctx):
    f, loop = _count_loop(ctx)
    # the ownership test: the guard over (site, start, end) whose body continues
    own = [s_ for s_ in loop.body if isinstance(s_, ast.If) and {'start', 'end'} <= names_in(s_.test) and s_.body and isinstance(s_.body[-1], ast.Continue)]
    if len(own) != 1:
        raise AnalysisError('count_fragments_binned: ownership test `site < start or site >= end` not found at loop level')
    after = loop.body[loop.body.index(own[0]) + 1:]

    def may_raise(kind, a):
        if kind in ('with_exit', 'except') or isinstance(a, ast.Raise):
            return set()
        tgt = a.test if kind == 'test' else a.iter if kind == 'for' else a
        return {'KeyError'} if any(isinstance(n_, ast.Call) and isinstance(n_.func, ast.Attribute) and n_.func.attr == 'get_tag' for n_ in walk_no_nested(tgt)) else set()
    rs = explore(after, lambda e: UNK, may_raise=may_raise, is_subclass=ctx.ix.is_subclass_name)
    ctx.counters['paths_enumerated'] += len(rs)
    aliases = _count_aliases(loop) | _flat_counters(f)
    skipped = [r for r in rs if r['kind'] in ('fall', 'continue', 'break') and not any((t.startswith('counts[') and t.count('[') == 2) or t.split('[')[0] in aliases for t, v, k in r['stores'])]
    ctx.emit('C12-R6', bool(rs) and not skipped, BINCOUNTS, own[0], f'{len(rs)} paths from the ownership test to the end of the iteration (KeyError of get_tag modelled): every one increments a (bin, sample) counter'
             if rs and not skipped else f'a path after the ownership test ends the iteration without counting the read: {skipped[0]["path"][-300:] if skipped else None}',
             key='owned-read-always-counted', what='count_fragments_binned: an owned read is skipped (e.g. because an optional tag is missing)')
    # whether a read is counted does not depend on which other reads the job has seen: no skip is decided by a container that the loop itself fills (a job-local
    # "seen" set makes the answer depend on where the job boundaries fall)
    filled = {}
    for c_ in walk_no_nested(loop):
        if isinstance(c_, ast.Call) and isinstance(c_.func, ast.Attribute) and c_.func.attr in ('add', 'append', 'update', 'setdefault') and isinstance(c_.func.value, ast.Name):
            filled.setdefault(c_.func.value.id, c_)
        if isinstance(c_, ast.Assign):
            for t_ in c_.targets:
                if isinstance(t_, ast.Subscript) and isinstance(t_.value, ast.Name):
                    filled.setdefault(t_.value.id, c_)
    counters = {'counts'} | aliases
    carried = []
    for i_ in [x for x in walk_no_nested(loop) if isinstance(x, ast.If)]:
        used = (names_in(i_.test) & set(filled)) - counters
        exits = any(isinstance(x, (ast.Continue, ast.Break)) for b_ in i_.body + i_.orelse for x in walk_no_nested(b_))
        if used and exits:
            carried.append((i_, sorted(used)))
    ctx.emit('C12-R6', not carried, BINCOUNTS, carried[0][0] if carried else loop, 'no read is skipped on the strength of what the job has seen before it' if not carried else
             f'`{src(carried[0][0].test)[:60]}` skips a read depending on `{carried[0][1][0]}`, which the loop fills from the reads it has already seen: two records that share that key are counted once '
             'when one job fetches both and twice when a job boundary separates them', key='no-job-local-memory', witness={'records sharing the key': 2, 'one job': 'counted once', 'two jobs': 'counted twice'} if carried else None,
             what='count_fragments_binned: a job-local "seen" container decides whether a read is counted')
    o = ctx.fn(BINCOUNTS, 'obtain_counts')
    whole = [c for c in walk_no_nested(o) if isinstance(c, ast.Call) and isinstance(c.func, ast.Attribute) and c.func.attr == 'update' and src(c.func.value) == 'counts']
    bin_aliases = {s_.targets[0].id for s_ in walk_no_nested(o) if isinstance(s_, ast.Assign) and len(s_.targets) == 1 and isinstance(s_.targets[0], ast.Name)
                   and (src(s_.value).startswith('counts[') or src(s_.value).startswith('counts.setdefault(') or src(s_.value).startswith('counts.get('))}
    per_bin = [c for c in walk_no_nested(o) if isinstance(c, ast.Call) and isinstance(c.func, ast.Attribute) and c.func.attr == 'update'
               and (src(c.func.value).startswith('counts[') or src(c.func.value) in bin_aliases or src(c.func.value).startswith('counts.setdefault('))]
    ctx.emit('C12-R6', not whole and bool(per_bin), BINCOUNTS, whole[0] if whole else (per_bin[0] if per_bin else o),
             'obtain_counts merges a job result into an existing bin per sample (counts[bin].update(samples))' if not whole and per_bin else
             'obtain_counts replaces whole bins (counts.update(result)): samples another job reported for the same bin are dropped (several input files share bins)',
             key='merge-per-bin-and-sample', undecided=(not whole and not per_bin), what='obtain_counts: job results are merged by replacing whole bins')


@rule('C12', 'C12-R7', 'every job is executed: what obtain_counts hands to the worker pool is the command list itself, or - when the commands are grouped into batches - a grouping '
                       'that contains every command exactly once (the grouping statements are evaluated on command lists of 0..12 entries for 1..4 threads)')
def r7(ctx):
    import copy
    from ..consteval import run_function, Raised, Unfoldable
    o = ctx.fn(BINCOUNTS, 'obtain_counts')
    pool = [c for c in walk_no_nested(o) if isinstance(c, ast.Call) and isinstance(c.func, ast.Attribute) and c.func.attr in ('imap_unordered', 'imap', 'map', 'starmap') and len(c.args) >= 2
            and not (isinstance(c.func.value, ast.Name) and c.func.value.id in ('itertools',))]
    ctx.need('C12-R7', len(pool), 1, 'pool map call of obtain_counts')
    params = [a.arg for a in o.args.args]
    cmd = params[0]
    for c in pool:
        it = c.args[1]
        if isinstance(it, ast.Name) and it.id == cmd:
            reb = [s_ for s_ in walk_no_nested(o) if isinstance(s_, ast.Assign) and any(isinstance(t, ast.Name) and t.id == cmd for t in s_.targets)
                   and not (isinstance(s_.value, ast.Call) and dotted(s_.value.func) in ('list', 'tuple') and len(s_.value.args) == 1 and src(s_.value.args[0]) == cmd)]
            if not reb:
                ctx.emit('C12-R7', True, BINCOUNTS, c, f'the pool maps the worker over `{cmd}` itself', key='every-command-executed')
                continue
        # a derived iterable: evaluate the straight-line statements that build it
        stmts = []
        for s_ in o.body:
            if any(x is c for x in ast.walk(s_)):
                break
            if isinstance(s_, ast.Assign) and all(isinstance(t, ast.Name) for t in s_.targets):
                stmts.append(copy.deepcopy(s_))
            elif isinstance(s_, ast.If) and all(isinstance(x, (ast.Assign, ast.Expr)) for x in s_.body + s_.orelse):
                stmts.append(copy.deepcopy(s_))
        # backward slice: only the statements the iterable depends on
        need, kept = set(names_in(it)), []
        for s_ in reversed(stmts):
            stores = {n_.id for n_ in ast.walk(s_) if isinstance(n_, ast.Name) and isinstance(n_.ctx, ast.Store)}
            if stores & need:
                kept.append(s_)
                need |= {n_.id for n_ in ast.walk(s_) if isinstance(n_, ast.Name) and isinstance(n_.ctx, ast.Load)}
        stmts = list(reversed(kept))
        fn = ast.FunctionDef(name='grouping', args=copy.deepcopy(o.args), body=stmts + [ast.Return(value=copy.deepcopy(it))], decorator_list=[], lineno=o.lineno, col_offset=0)
        ast.fix_missing_locations(fn)

        def flat(x, out):
            if isinstance(x, (list, tuple)):
                for y in x:
                    flat(y, out)
            elif isinstance(x, str) and x.startswith('cmd'):
                out.append(x)
            return out

        def hook(ev, call, env):
            d = dotted(call.func) or ''
            if d == 'print' or d.startswith('plt.') or d.startswith('fig') or d.startswith('ax'):
                return None
            return NotImplemented
        bad, n = None, 0
        try:
            for nc in range(0, 13):
                for th in range(1, 5):
                    n += 1
                    cmds = [f'cmd{i}' for i in range(nc)]
                    kw = {p_: None for p_ in params[1:]}
                    kw.update({'threads': th, 'live_update': False, 'show_progress': False, 'count_function': '<count_function>', 'show_n_cells': 4, 'update_interval': 3})
                    kw = {k_: v_ for k_, v_ in kw.items() if k_ in params}
                    got = run_function(fn, [list(cmds)], kw, call_hook=hook, budget=40000)
                    got = flat(list(got) if not isinstance(got, (list, tuple)) else got, [])
                    if sorted(got) != sorted(cmds) and bad is None:
                        missing = [x for x in cmds if x not in got]
                        twice = sorted({x for x in got if got.count(x) > 1})
                        bad = {'commands': nc, 'threads': th, 'never executed': missing, 'executed twice': twice}
        except (Unfoldable, Raised, Exception) as e_:
            ctx.emit('C12-R7', False, BINCOUNTS, c, f'the pool maps over `{src(it)[:60]}`; how it is built from `{cmd}` is outside the interpreted subset ({type(e_).__name__}: {str(e_)[:80]})', key='every-command-executed', undecided=True)
            continue
        ctx.counters['interpreted_cases'] = ctx.counters.get('interpreted_cases', 0) + n
        ctx.emit('C12-R7', bad is None, BINCOUNTS, c, f'the pool maps over `{src(it)[:60]}`: over {n} (commands, threads) sizes it contains every command exactly once' if bad is None else
                 f'the pool maps over `{src(it)[:60]}`, which does not contain every command once: {bad} - the bins of those jobs are missing from the matrix', key='every-command-executed', witness=bad,
                 what='obtain_counts: some count commands are never handed to a worker')


MUTATORS = {'pop', 'popitem', 'update', 'clear', 'setdefault', 'append', 'extend', 'remove', 'insert', 'sort', 'reverse', 'add', 'discard', '__setitem__', '__delitem__'}


@rule('C12', 'C12-R8', 'a job leaves its command untouched: generate_commands puts the same kwargs / alt_spans / key_tags objects into every command, so a job function that '
                       'pops from or writes to one of them changes what the jobs after it in the same process count (the matrix then depends on the schedule)')
def r8(ctx):
    g = ctx.fn(BINCOUNTS, 'generate_commands')
    params = {a.arg for a in g.args.args + g.args.kwonlyargs}
    ys = [y for y in ast.walk(g) if isinstance(y, ast.Yield) and isinstance(y.value, ast.Tuple)]
    ctx.need('C12-R8', len(ys), 1, 'command tuples yielded by generate_commands')
    shared_pos = set()
    for y in ys:
        for k, e in enumerate(y.value.elts):
            if isinstance(e, ast.Name) and e.id in params and e.id in ('kwargs', 'alt_spans', 'key_tags', 'blacklist'):
                shared_pos.add(k - len(y.value.elts))      # position counted from the end: starred job coordinates in front do not shift it
    n = 0
    for q in ('count_fragments_binned', 'count_methylation_binned'):
        f = ctx.fn(BINCOUNTS, q)
        cmd = f.args.args[0].arg
        unpack = [s for s in f.body if isinstance(s, ast.Assign) and isinstance(s.value, ast.Name) and s.value.id == cmd and isinstance(s.targets[0], ast.Tuple)]
        if not unpack:
            continue
        elts = unpack[0].targets[0].elts
        names = {elts[k].id for k in shared_pos if -k <= len(elts) and isinstance(elts[k], ast.Name)}
        n += 1
        hits = []
        for x in walk_no_nested(f):
            if isinstance(x, ast.Call) and isinstance(x.func, ast.Attribute) and x.func.attr in MUTATORS and isinstance(x.func.value, ast.Name) and x.func.value.id in names:
                hits.append((x, f'{x.func.value.id}.{x.func.attr}(...)'))
            if isinstance(x, (ast.Assign, ast.AugAssign, ast.Delete)):
                for t in (x.targets if not isinstance(x, ast.AugAssign) else [x.target]):
                    if isinstance(t, ast.Subscript) and isinstance(t.value, ast.Name) and t.value.id in names:
                        hits.append((x, src(x)[:50]))
        # rebinding the local first (kwargs = dict(kwargs)) makes the later writes private
        rebound = {t.id for s in f.body if isinstance(s, ast.Assign) and s is not unpack[0] for t in s.targets if isinstance(t, ast.Name)}     # unconditional rebinding only
        hits = [(x, d) for x, d in hits if not ((x.func.value.id if isinstance(x, ast.Call) else None) in rebound)]
        ctx.emit('C12-R8', not hits, BINCOUNTS, hits[0][0] if hits else f, f'{q} only reads the shared command members {sorted(names)}' if not hits else
                 f'{q} changes a command member shared by all jobs: `{hits[0][1]}` - the next job of the same process sees the changed object',
                 key=f'{q}:command-read-only', witness={'jobs in one process': 2, 'first job': hits[0][1], 'second job': 'reads the member after the change'} if hits else None,
                 what=f'{q} mutates the command it was given')
    ctx.need('C12-R8', n, 1, 'job functions unpacking a command')


META = {
    'text': ('Decides: the per-job ownership test is exactly the half-open [start, end) on every ordering; job boundaries are multiples of the bin '
             'size (start 0, step bin_size*bins_per_job, end = start + step) so the non-additive merge cannot lose counts; the bin of a read is '
             'floor(site/bin_size) with bounds [bin_size*i, min(bin_size*(i+1), contig size)); each counted read adds exactly 1 on every path; the '
             'filter rejects on read-1 / qc-fail / duplicate / non-unique mp / MAPQ < threshold (threshold test enumerated), can only reject, and is '
             'called with read1_only=True and the caller\'s min_mq/dedup; reads are fetched from (max(0,start-M), min(end+M, contig size)). Does NOT '
             'decide equality of matrices across splits at runtime, nor reads whose record lies further than the margin from its site.'),
    'technique': 'static analysis: exhaustive ordering enumeration of ownership / threshold predicates and fetch-window clamps, rounding-bound domain for the bin index, exactly-once path check; joint truth table of all filter atoms; interpretation of the batching statements on 0..12 commands x 1..4 threads; effect check of the job functions on the command members shared between commands',
    'design_ref': 'DESIGN.md section 5, C12',
}


from . import shared as _shared
_shared.register('C12', 'C12')
