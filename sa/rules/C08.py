"""C08 - parallel tagging is equivalent to serial tagging (ownership, stop criterion, margins, job bookkeeping)."""
import ast

from ..core import rule, Ctx
from ..index import AnalysisError, dotted, src, walk_no_nested, names_in
from ..cfg import CFG, eval3, UNK
from ..domains import check_pred
from ..util import node_calls, last_name, reach_conds, mk_atoms
from .slots import BTM, TAGGING, BINCOUNTS


def _task_loop(ctx):
    f = ctx.fn(TAGGING, 'run_tagging_task')
    loops = [l for l in f.body if isinstance(l, ast.For) and 'molecule_iterator_class' in src(l.iter)]
    if len(loops) != 1:
        raise AnalysisError('run_tagging_task: molecule loop not found')
    return f, loops[0]


@rule('C08', 'C08-R1', 'a job writes exactly the molecules whose cut site lies in its own half-open bin [start, end) on its own contig')
def r1(ctx):
    f, loop = _task_loop(ctx)
    # the skip test: an `if` whose body is a single continue and whose test mentions start and end
    cands = [s for s in walk_no_nested(loop) if isinstance(s, ast.If) and len(s.body) == 1 and isinstance(s.body[0], (ast.Continue, ast.Break, ast.Return))
             and {'start', 'end'} <= names_in(s.test)]
    if len(cands) != 1:
        ctx.emit('C08-R1', False, TAGGING, loop, f'ownership test not found ({len(cands)} candidates)', key='ownership-predicate', undecided=True)
        return
    t = cands[0].test
    sitev = [n for n in names_in(t) if 'pos' in n]
    contv = [n for n in names_in(t) if 'contig' in n and n != 'contig']
    if len(sitev) != 1 or len(contv) > 1:
        raise AnalysisError(f'ownership test: cannot identify the site variables in `{src(t)}`')
    ren = {sitev[0]: 'pos', 'start': 'start', 'end': 'end', 'contig': 'cj'}
    if contv:
        ren[contv[0]] = 'c'
    syms = ['pos', 'start', 'end', 'c', 'cj']
    # a test merged with the fetch-window test: the fetch window contains the bin (C17-R9), so fetch_start <= start and end <= fetch_end
    fw = [n_ for n_ in ('fetch_start', 'fetch_end') if n_ in names_in(t)]
    for n_ in fw:
        ren[n_] = n_
    ncase, bad = check_pred(t, lambda e: e['c'] != e['cj'] or not (e['start'] <= e['pos'] < e['end']), symbols=syms + fw,
                            constraint=lambda e: e['start'] < e['end'] and e['c'] in (0, 1) and e['cj'] in (0, 1) and e.get('fetch_start', e['start']) <= e['start'] and e['end'] <= e.get('fetch_end', e['end']),
                            atom_name=lambda x: ren.get(src(x)))
    ctx.counters['abstract_cases'] += ncase
    eff = type(cands[0].body[0]).__name__
    ctx.emit('C08-R1', not bad and eff == 'Continue', TAGGING, cands[0], f'skip test `{src(t)}` over {ncase} cases ' +
             ('== other contig or site outside [start, end)' if not bad else f'differs from the half-open ownership rule at {bad[0]["case"]} (code skips: {bad[0]["code"]}, rule: {bad[0]["spec"]})') +
             ('' if eff == 'Continue' else f'; effect is `{eff.lower()}` instead of continue'), key='ownership-predicate', witness=bad[0] if bad else None,
             what='run_tagging_task: bin ownership test is not the half-open interval [start, end)')
    ctx.exhaustive['C08-R1'] = True
    # the site tested is the molecule's cut site: first fragment with a site
    asg = [s for s in walk_no_nested(loop) if isinstance(s, ast.Assign) and isinstance(s.targets[0], ast.Tuple) and sitev[0] in names_in(s.targets[0]) and not isinstance(s.value, ast.Tuple)]
    ok = len(asg) == 1 and isinstance(asg[0].value, ast.Name)
    prov = None
    if ok:
        rv = asg[0].value.id
        d = [s for s in walk_no_nested(loop) if isinstance(s, ast.Assign) and src(s.targets[0]) == rv]
        prov = src(d[0].value) if d else None
        ok = prov is not None and prov.endswith('.get_site_location()')
    ctx.emit('C08-R1', ok, TAGGING, asg[0] if asg else loop, f'the tested site is `{prov}` of the first fragment that has a site', key='site-provenance')
    # the filter is active whenever a region is given: the reach condition of the ownership test inside the molecule loop holds under
    # (fetch_start is not None, fetching) - however the two guards are nested or merged
    conds = reach_conds(loop.body, cands[0]) or []
    guards = [src(t_) + ('' if pol else ' [negated]') for t_, pol in conds if not (names_in(t_) & {sitev[0]} | (set(contv) & names_in(t_)))]
    at = mk_atoms({'fetch_start is not None': True, 'fetching': True})
    vals = [eval3(t_, {}, at) for t_, pol in conds if not (names_in(t_) & ({sitev[0]} | set(contv)))]
    pols = [pol for t_, pol in conds if not (names_in(t_) & ({sitev[0]} | set(contv)))]
    active = all(v is not UNK and bool(v) == pol for v, pol in zip(vals, pols))
    ctx.emit('C08-R1', active, TAGGING, cands[0], f'ownership filter is applied when a region is given (guards: {guards})', key='filter-active', nontrivial=False)


@rule('C08', 'C08-R2', 'a job does not leave the molecule loop on the site of a molecule: the iterator emits rejected fragments as soon as they are read, ahead of the molecules it '
                       'still buffers, so the first molecule at or behind the end of the window says nothing about what is still to come - a `break` / `return` there drops '
                       'every buffered molecule of the bin (the reads the iterator walks end with the fetch window anyway); reads are fetched from the fetch window')
def r2(ctx):
    f, loop = _task_loop(ctx)
    exits = [s for s in walk_no_nested(loop) if isinstance(s, (ast.Break, ast.Return))]
    site_exits = []
    for x in exits:
        conds = reach_conds(loop.body, x) or []
        if any(n_ for t_, pol in conds for n_ in names_in(t_) if 'pos' in n_ or 'site' in n_):
            site_exits.append((x, conds))
    for x, conds in site_exits[:1]:
        ctx.emit('C08-R2', False, TAGGING, x, f'the molecule loop is left by `{src(x)}` under `{" and ".join(src(t_) if pol else "not (" + src(t_) + ")" for t_, pol in conds)[:160]}`: a rejected fragment '
                 f'(emitted out of coordinate order) behind the window end makes the job drop every molecule the iterator still buffers', key='stop-criterion',
                 what='run_tagging_task: the job stops at the first molecule behind its window and loses the buffered molecules')
    if not site_exits:
        ctx.emit('C08-R2', True, TAGGING, loop, f'{len(exits)} early exits of the molecule loop, none conditioned on a molecule site', key='stop-criterion')
    _r2_fetch_region(ctx, loop)
    return
    brk = []
    t = None
    sitev = [n for n in names_in(t) if 'pos' in n]
    if len(sitev) != 1:
        raise AnalysisError(f'stop criterion not understood: {src(t)}')
    others = names_in(t) - set(sitev)
    ok_name = others == {'fetch_end'}
    bad = []
    if ok_name:
        n, bad = check_pred(t, lambda e: e['pos'] >= e['fe'], symbols=['pos', 'fe'], atom_name=lambda x: {sitev[0]: 'pos', 'fetch_end': 'fe'}.get(src(x)))
    ctx.emit('C08-R2', ok_name and not bad, TAGGING, brk[0], f'stop criterion `{src(t)}` ' + ('== site >= fetch_end' if ok_name and not bad else
             'stops at ' + ', '.join(sorted(others)) + ': molecules of the bin whose reads lie in the fetch margin can be cut off' if not ok_name else f'differs: {bad[0]}'),
             key='stop-criterion')


def _r2_fetch_region(ctx, loop):
    # region passed to the iterator is the fetch window
    it = loop.iter
    call = [c for c in walk_no_nested(it) if isinstance(c, ast.Call) and src(c.func) == 'molecule_iterator_class']
    kw = {k.arg: src(k.value) for k in call[0].keywords if k.arg} if call else {}
    ok = kw.get('start') == 'fetch_start' and kw.get('end') == 'fetch_end' and kw.get('contig') == 'contig'
    ctx.emit('C08-R2', ok, TAGGING, loop, f'reads are fetched from the fetch window: contig={kw.get("contig")}, start={kw.get("start")}, end={kw.get("end")}', key='fetch-region')


@rule('C08', 'C08-R3', 'task dictionaries carry all five region fields under the names run_tagging_task expects; worker results are kept iff '
                       'any task wrote (accumulated) and each is merged once (shared with C05-R7)')
def r3(ctx):
    from . import C05
    sub = Ctx(ctx.ix, 'C05', ctx.tier)
    C05.r7(sub)
    for o in sub.obligations:
        o.construct = o.construct.replace('C05-R7', 'C08-R3')
        o.rule = 'C08-R3'
        ctx.obligations.append(o)
    for k, v in sub.counters.items():
        if isinstance(v, set):
            ctx.counters[k] |= v
        else:
            ctx.counters[k] += v
    # job generator of the tiled mode: bins with fetch windows are chunked, each chunk is one job
    f = ctx.fn(BTM, 'tag_multiome_multi_processing')
    reg = [c for c in walk_no_nested(f) if isinstance(c, ast.Call) and last_name(dotted(c.func) or '') == 'blacklisted_binning_contigs']
    ok = len(reg) == 1 and {k.arg: src(k.value) for k in reg[0].keywords}.get('fragment_size') == 'fragment_size' and \
        {k.arg: src(k.value) for k in reg[0].keywords}.get('bin_size') == 'bp_per_segment'
    ctx.emit('C08-R3', ok, BTM, reg[0] if reg else f, 'tiled mode: bins of bp_per_segment with fetch margin fragment_size', key='tiling-arguments')
    ch = [c for c in walk_no_nested(f) if isinstance(c, ast.Call) and last_name(dotted(c.func) or '') == 'bp_chunked']
    ok = len(ch) == 1 and [src(a) for a in ch[0].args] == ['regions', 'bp_per_job']
    ctx.emit('C08-R3', ok, BTM, ch[0] if ch else f, 'tiled mode: every bin goes into a chunk of bp_per_job (bp_chunked, see C17-R5)', key='chunking-arguments', nontrivial=False)
    # unordered consumption: results are order independent (append + merge), imap_unordered or generator
    gen = [s for s in walk_no_nested(f) if isinstance(s, ast.Assign) and src(s.targets[0]) == 'job_generator']
    ok = len(gen) == 2 and all('run_tagging_tasks' in src(s.value) and 'tasks' in src(s.value) for s in gen)
    ctx.emit('C08-R3', ok, BTM, gen[0] if gen else f, 'every task is handed to run_tagging_tasks exactly once (pool.imap_unordered or serial generator)', key='tasks-consumed-once')


@rule('C08', 'C08-R4', 'fetch margins: the fetch window of every bin extends by exactly the fragment size wherever the gap allows (no bin '
                       'loses its margin), and the margin constant is non-zero for the restriction / MNase methods')
def r4(ctx):
    from . import C17
    w = C17.window_analysis(ctx)
    problems = w['c17'] + w['exact']
    if problems:
        # the structural reading did not follow the window arithmetic: the tiling model (C17-R9) checks the same equality on every small tiling problem
        m = C17.tiling_model(ctx)
        if m is not None and m[0]:
            ctx.counters['interpreted_cases'] = ctx.counters.get('interpreted_cases', 0) + m[1]
            ctx.emit('C08-R4', True, BINCOUNTS, w['y'], f'fetch window == (max(gap start, bin start - F), min(gap end, bin end + F)) for every bin of {m[1]} interpreted tiling problems (the symbolic reading did not follow: {problems[0][:80]})',
                     key='window-exact')
            problems = None
    if problems is not None:
        ctx.emit('C08-R4', not problems, BINCOUNTS, w['y'], 'fetch window == (max(gap start, bin start - F), min(gap end, bin end + F)) for every bin' if not problems else '; '.join(problems),
             key='window-exact', witness=w['witness'], what='blacklisted_binning: a bin is fetched with less margin than the fragment size although the gap allows it')
    f = ctx.fn(BTM, 'run_multiome_tagging')
    mod = ctx.ix.module(BTM)
    # per-method constants
    vals = {}
    for s in walk_no_nested(f):
        if isinstance(s, ast.Assign) and src(s.targets[0]) == 'fragment_size' and isinstance(s.value, ast.Constant):
            p = mod.parent[s]
            guard = src(p.test) if isinstance(p, ast.If) else '<default>'
            vals[guard] = s.value.value
    need = [g for g in vals if any(m in g for m in ("'nla'", "'chic'")) and 'taps' not in g and 'transcriptome' not in g]
    ok = bool(need) and all(vals[g] and vals[g] > 0 for g in need) and vals.get('<default>', 0) > 0
    ctx.emit('C08-R4', ok, BTM, f, f'fragment_size constants: default {vals.get("<default>")}, ' + ', '.join(f'{g}: {vals[g]}' for g in need), key='margin-constants')
    call = [c for c in walk_no_nested(f) if isinstance(c, ast.Call) and last_name(dotted(c.func) or '') == 'tag_multiome_multi_processing']
    from ..util import call_kwargs
    ok = len(call) == 1 and src(call_kwargs(f, call[0]).get('fragment_size') or ast.Constant(value=None)) == 'fragment_size'
    ctx.emit('C08-R4', ok, BTM, call[0] if call else f, 'the per-method fragment size is what the multiprocessing entry point receives', key='margin-wiring', nontrivial=False)


@rule('C08', 'C08-R5', 'the job list covers every contig exactly once in both modes: contig-per-process job construction (shared with C05-R1/R2), chunking '
                       'of the tiled bins (shared with C17-R5), and the contig whitelist handed to the tiling is a container that can be tested repeatedly')
def r5(ctx):
    from . import C05, C17
    from ..core import include
    include(ctx, C05, [C05.r1, C05.r2], 'C08-R5')
    include(ctx, C17, [C17.r5], 'C08-R5')
    f = ctx.fn(BTM, 'tag_multiome_multi_processing')
    # `contig in contig_whitelist` is evaluated once per header contig inside blacklisted_binning_contigs: a one-shot iterator (generator
    # expression, map, filter, zip, iter) is exhausted by the first failing membership test and silently drops all later contigs
    calls = [c for c in walk_no_nested(f) if isinstance(c, ast.Call) and last_name(dotted(c.func) or '') == 'blacklisted_binning_contigs']
    for c in calls:
        wl = [k.value for k in c.keywords if k.arg == 'contig_whitelist']
        if not wl:
            continue
        vals = [wl[0]]
        if isinstance(wl[0], ast.Name):
            vals = [s_.value for s_ in walk_no_nested(f) if isinstance(s_, ast.Assign) and len(s_.targets) == 1 and src(s_.targets[0]) == wl[0].id]
        one_shot = [v for v in vals if isinstance(v, ast.GeneratorExp) or (isinstance(v, ast.Call) and dotted(v.func) in ('map', 'filter', 'zip', 'iter', 'reversed'))]
        ctx.emit('C08-R5', bool(vals) and not one_shot, BTM, one_shot[0] if one_shot else c,
                 f'contig whitelist of the tiling is built as {sorted({type(v).__name__ for v in vals})} (re-iterable)' if not one_shot else
                 f'contig whitelist `{src(one_shot[0])[:80]}` is a one-shot iterator: the per-contig membership tests exhaust it and later contigs get no bins',
                 key='whitelist-reiterable', what='tag_multiome_multi_processing: the contig whitelist is a one-shot iterator')


@rule('C08', 'C08-R6', 'every molecule with a placed read has a site some bin can own: the fallback coordinate of a fragment without a valid cut site is taken from '
                       'the first read that HAS a coordinate (an unmapped mate placed at its partner\'s position counts), not only from mapped reads')
def r6(ctx):
    from .slots import P
    n = 0
    for rel, q in ((P + 'fragment/chic.py', 'CHICFragment.get_site_location'), (P + 'fragment/nlaIII.py', 'NlaIIIFragment.get_site_location')):
        if not ctx.ix.has_func(rel, q):
            continue
        g = ctx.fn(rel, q)
        loops = [l for l in walk_no_nested(g) if isinstance(l, ast.For) and src(l.iter) == 'self' and isinstance(l.target, ast.Name)]
        if len(loops) != 1:
            ctx.emit('C08-R6', False, rel, g, f'{q}: fallback loop over the reads of the fragment not found', key=f'fallback-site:{q}', undecided=True)
            continue
        n += 1
        l = loops[0]
        rv = l.target.id
        rets = [r_ for b_ in l.body for r_ in walk_no_nested(b_) if isinstance(r_, ast.Return)]
        allowed = {f'{rv} is not None', f'{rv}.reference_name is not None', f'{rv}.reference_start is not None'}
        extra = []
        for r_ in rets:
            for t_, pol in (reach_conds(l.body, r_) or []):
                parts = t_.values if isinstance(t_, ast.BoolOp) and isinstance(t_.op, ast.And) and pol else [t_]
                for p_ in parts:
                    txt = src(p_)
                    if not pol and isinstance(p_, ast.Compare) and len(p_.ops) == 1 and isinstance(p_.ops[0], ast.Is) and src(p_.comparators[0]) == 'None':
                        txt, okpol = f'{src(p_.left)} is not None', True          # passed the `X is None` guard
                    else:
                        okpol = pol
                    if not (okpol and txt in allowed):
                        extra.append(p_)
        ok = bool(rets) and not extra and all(src(r_.value).replace(' ', '') in (f'({rv}.reference_name,{rv}.reference_start)', f'{rv}.reference_name,{rv}.reference_start') for r_ in rets)
        ctx.emit('C08-R6', ok, rel, extra[0] if extra else l, f'{q}: the fallback site is the coordinate of the first read that has one' if ok else
                 f'{q}: the fallback site additionally requires `{src(extra[0]) if extra else "?"}`: a molecule whose only placed reads are flagged unmapped gets no site, '
                 'and no bin of a tiled run writes it', key=f'fallback-site:{q}', what=f'{q}: placed-unmapped reads give no fallback site')
    ctx.need('C08-R6', n, 1, 'get_site_location fallbacks')


@rule('C08', 'C08-R7', 'no position of a gap is left without a bin: the bins are the steps of fill_range over the gap, remainder included (shared with C17-R6)')
def r7(ctx):
    from . import C17
    C17.bin_source(ctx, 'C08-R7')


@rule('C08', 'C08-R8', 'the molecules still buffered at the end of a region are emitted oldest first: the final flush of the iterator walks its buffers forward '
                       '(insertion order) - a worker stops at the first molecule at or behind the end of its fetch window, which is only safe when the molecules '
                       'behind the window come last, as they do in coordinate sorted input')
def r8(ctx):
    from .slots import MOLITER
    f = ctx.fn(MOLITER, 'MoleculeIterator.__iter__')
    main = [k for k, s_ in enumerate(f.body) if isinstance(s_, ast.For) and 'matePairIterator' in src(s_.iter)]
    if not main:
        raise AnalysisError('MoleculeIterator.__iter__: read loop not found')
    tail = f.body[main[-1] + 1:]
    ys = [y for s_ in tail for y in ast.walk(s_) if isinstance(y, (ast.Yield, ast.YieldFrom))]
    ctx.need('C08-R8', len(ys), 1, 'yields of the final flush')
    backwards = []
    for s_ in tail:
        for n in ast.walk(s_):
            if isinstance(n, ast.Call) and isinstance(n.func, ast.Attribute) and n.func.attr == 'popitem' and not any(k.arg == 'last' and src(k.value) == 'False' for k in n.keywords) \
                    and not (n.args and src(n.args[0]) == 'False'):
                backwards.append((n, 'popitem() takes the entry inserted LAST'))
            elif isinstance(n, ast.Call) and isinstance(n.func, ast.Attribute) and n.func.attr == 'pop' and not n.args and 'molecules' in src(n.func.value):
                backwards.append((n, 'pop() takes the LAST element'))
            elif isinstance(n, ast.Call) and dotted(n.func) == 'reversed' and 'molecules' in src(n):
                backwards.append((n, 'reversed() walks the buffer backwards'))
            elif isinstance(n, ast.Subscript) and isinstance(n.slice, ast.Slice) and n.slice.step is not None and src(n.slice.step) == '-1' and 'molecules' in src(n.value):
                backwards.append((n, 'a [::-1] slice walks the buffer backwards'))
    for n, why in backwards[:1]:
        ctx.emit('C08-R8', False, MOLITER, n, f'final flush: `{src(n)[:60]}` - {why}: the molecules with the highest coordinates are emitted first, a worker that stops at the first molecule behind '
                 f'its fetch window then drops every buffered molecule of its bin', key='flush-order', what='MoleculeIterator: final flush emits the buffered molecules newest first')
    if not backwards:
        ctx.emit('C08-R8', True, MOLITER, tail[0] if tail else f, f'final flush walks the buffers forward ({len(ys)} yield site(s))', key='flush-order')


@rule('C08', 'C08-R9', 'every job that was planned is executed: between the construction of the job list and the task generator the list is only materialised '
                       '(list(jobs) / tuple(jobs) / an unfiltered copy) - never re-bound to a filtered or sliced subset of itself; a filter made for another consumer '
                       '(the job bed file) has to live in a variable of its own')
def r9(ctx):
    f = ctx.fn(BTM, 'tag_multiome_multi_processing')
    gens = [c for c in walk_no_nested(f) if isinstance(c, ast.Call) and last_name(dotted(c.func)) == 'generate_tasks']
    ctx.need('C08-R9', len(gens), 1, 'task generator call')
    jarg = next((k.value for k in gens[0].keywords if k.arg == 'job_gen'), gens[0].args[1] if len(gens[0].args) > 1 else None)
    if not isinstance(jarg, ast.Name):
        ctx.emit('C08-R9', False, BTM, gens[0], f'the job list handed to generate_tasks is `{src(jarg) if jarg is not None else None}`, not a local', key='planned-jobs-executed', undecided=True)
        return
    v = jarg.id
    n, bad, und = 0, [], []
    for st in walk_no_nested(f):
        if not (isinstance(st, ast.Assign) and any(isinstance(t, ast.Name) and t.id == v for t in st.targets)):
            continue
        if v not in names_in(st.value):
            continue          # a construction, not a re-binding of the planned list
        n += 1
        e = st.value
        if isinstance(e, ast.Call) and last_name(dotted(e.func)) in ('list', 'tuple') and len(e.args) == 1 and src(e.args[0]) == v:
            continue
        if isinstance(e, ast.BinOp) and isinstance(e.op, ast.Add):
            continue          # extended, nothing removed
        if isinstance(e, (ast.ListComp, ast.GeneratorExp)) and len(e.generators) == 1 and src(e.generators[0].iter) == v:
            if not e.generators[0].ifs and src(e.elt) == src(e.generators[0].target):
                continue
            if e.generators[0].ifs:
                bad.append((st, f'`{src(st)[:160]}` keeps only the jobs passing `{src(e.generators[0].ifs[0])}`: the jobs filtered out are never handed to a worker'))
                continue
        if isinstance(e, ast.Call) and last_name(dotted(e.func)) == 'filter':
            bad.append((st, f'`{src(st)[:160]}` filters the planned jobs'))
            continue
        if isinstance(e, ast.Subscript) and src(e.value) == v and isinstance(e.slice, ast.Slice):
            bad.append((st, f'`{src(st)[:160]}` keeps a slice of the planned jobs'))
            continue
        und.append(st)
    for st, text in bad:
        ctx.emit('C08-R9', False, BTM, st, text, key='planned-jobs-executed', what='tag_multiome_multi_processing: planned jobs are dropped before the task generator')
    for st in und:
        ctx.emit('C08-R9', False, BTM, st, f'`{src(st)[:160]}` re-binds the job list in a way that is not recognised as a plain copy', key='planned-jobs-executed', undecided=True)
    if not bad and not und:
        ctx.emit('C08-R9', True, BTM, gens[0], f'{n} re-bindings of `{v}` between planning and generate_tasks: all are plain materialisations', key='planned-jobs-executed', nontrivial=n > 0)


def whole_contig_task_unwindowed(ctx, rid):
    """a task that names only a contig (start, end, fetch_start, fetch_end all None) is meant to take the whole contig: on every path of the prelude of
    run_tagging_task the four stay None up to the molecule loop - with values the region filter of the loop wakes up, skips molecules whose site lies before
    `start` and stops at the first site at or behind `fetch_end` (clipped / shifted sites at the contig borders, and everything still buffered)"""
    from ..util import explore
    f, loop = _task_loop(ctx)
    pre = f.body[:f.body.index(loop)]
    names = ('start', 'end', 'fetch_start', 'fetch_end')
    params = {a.arg for a in f.args.args + f.args.kwonlyargs}
    if not set(names) <= params:
        ctx.emit(rid, False, TAGGING, f, f'run_tagging_task has no parameters {sorted(set(names) - params)}', key='whole-contig-task-unwindowed', undecided=True)
        return
    env0 = {n_: None for n_ in names}

    def atoms(e):
        t = src(e)
        if t in ('contig is None',):
            return False
        if t in ('contig is not None', 'fetching'):
            return True
        return UNK
    rs = explore(pre, atoms, names=names, env0=dict(env0))
    ctx.counters['paths_enumerated'] += len(rs)
    bad = None
    n = 0
    for r in rs:
        if r['kind'] != 'fall':
            continue
        n += 1
        for n_ in names:
            if n_ in r['env'] and r['env'][n_] is not None and not (isinstance(r['env'][n_], ast.Constant) and r['env'][n_].value is None):
                bad = (n_, src(r['env'][n_]) if isinstance(r['env'][n_], ast.AST) else str(r['env'][n_]), r['path'][-300:])
    ctx.need(rid, n, 1, 'paths of a whole-contig task to the molecule loop')
    ctx.emit(rid, bad is None, TAGGING, loop, f'{n} paths of a task without coordinates reach the molecule loop with start / end / fetch window still None (no region filter)' if bad is None else
             f'a task without coordinates reaches the molecule loop with {bad[0]} = `{bad[1]}`: the region filter meant for binned jobs is switched on for a whole-contig job, molecules with a site outside '
             f'[start, fetch_end) are skipped and the loop stops at the first site at or behind the window end (path ...{bad[2]})', key='whole-contig-task-unwindowed',
             what='run_tagging_task: a whole-contig task is given a window and loses molecules at its borders')


@rule('C08', 'C08-R10', 'a whole-contig task stays without a window inside the worker (shared with C05-R10, C20-R6): the region filter and the stop test of run_tagging_task only apply to binned jobs')
def r10(ctx):
    whole_contig_task_unwindowed(ctx, 'C08-R10')


@rule('C08', 'C08-R11', 'a contig restriction of the caller restricts the tiling: what tag_multiome_multi_processing reads from molecule_iterator_args (the contig) is read before the '
                        'entries are removed from the dictionary - read after the removal the restriction is silently gone and every contig is tagged')
def r11(ctx):
    f = ctx.fn(BTM, 'tag_multiome_multi_processing')
    mod = ctx.ix.module(BTM)

    def top_index(node):
        return next((k for k, s_ in enumerate(f.body) if any(x is node for x in ast.walk(s_))), None)
    removed = {}       # key -> index of the top-level statement that removes it
    for n_ in ast.walk(f):
        keys = []
        if isinstance(n_, ast.Delete):
            for t_ in n_.targets:
                if isinstance(t_, ast.Subscript) and src(t_.value) == 'molecule_iterator_args':
                    keys.append(t_.slice)
        elif isinstance(n_, ast.Call) and isinstance(n_.func, ast.Attribute) and n_.func.attr == 'pop' and src(n_.func.value) == 'molecule_iterator_args' and n_.args:
            keys.append(n_.args[0])
        for k_ in keys:
            vals = []
            if isinstance(k_, ast.Constant):
                vals = [k_.value]
            elif isinstance(k_, ast.Name):
                # the variable of a loop over a literal list of keys
                for l_ in ast.walk(f):
                    if isinstance(l_, ast.For) and isinstance(l_.target, ast.Name) and l_.target.id == k_.id and isinstance(l_.iter, (ast.List, ast.Tuple)) and any(x is n_ for x in ast.walk(l_)):
                        vals = [e.value for e in l_.iter.elts if isinstance(e, ast.Constant)]
            for v_ in vals:
                ti = top_index(n_)
                if ti is not None:
                    removed[v_] = min(removed.get(v_, ti), ti)
    reads = []
    for n_ in ast.walk(f):
        key = None
        if isinstance(n_, ast.Subscript) and isinstance(n_.ctx, ast.Load) and src(n_.value) == 'molecule_iterator_args' and isinstance(n_.slice, ast.Constant):
            key = n_.slice.value
        elif isinstance(n_, ast.Call) and isinstance(n_.func, ast.Attribute) and n_.func.attr == 'get' and src(n_.func.value) == 'molecule_iterator_args' and n_.args and isinstance(n_.args[0], ast.Constant):
            key = n_.args[0].value
        if key is not None and key in removed:
            reads.append((key, n_, top_index(n_)))
    ctx.need('C08-R11', len(removed), 1, 'entries removed from molecule_iterator_args')
    late = [(k_, n_) for k_, n_, ti in reads if ti is not None and ti > removed[k_]]
    ctx.emit('C08-R11', not late, BTM, late[0][1] if late else f, f'{len(reads)} read(s) of removed entries ({sorted({k_ for k_, _, _ in reads})}) all come before the removal' if not late else
             f'`{src(late[0][1])[:60]}` is read after `{late[0][0]}` was removed from molecule_iterator_args: the value the caller gave is never seen, the default (every contig) is used',
             key='restriction-read-before-removal', witness={'molecule_iterator_args': {late[0][0]: 'chrB'}, 'whitelist': 'all contigs'} if late else None,
             what='tag_multiome_multi_processing: the contig restriction is read after it was removed', nontrivial=bool(reads))


META = {
    'text': ('Decides: the per-job ownership test equals "other contig or site outside the half-open [start, end)" on every ordering, and the '
             'tested site is the molecule cut site; the early stop compares the site with the FETCH end; reads are fetched from the fetch window; '
             'task dictionaries carry the five region fields run_tagging_task expects; worker BAMs are kept iff any task wrote (accumulated) and merged '
             'once; the fetch window of every bin extends by exactly the fragment size wherever the gap allows; margin constants are non-zero for '
             'nla/chic. Together with C17 (tiling) and C05 (job list) this is the static part of "each molecule is written by exactly one job". Does '
             'NOT decide equality of flags/tags between serial and parallel runs nor sufficiency of the margin for the actual fragment lengths.'),
    'technique': 'static analysis: exhaustive ordering enumeration of ownership / stop predicates, exact clamp check of fetch windows, producer/consumer field agreement; def-use check of the planned job list, constant-path check of a whole-contig task (window values stay None); small-scope abstract execution of generate_tasks on a model plan (a region with a read in its fetch window becomes exactly one task) and of the tiling incl. window exactness where the symbolic reading cannot follow',
    'design_ref': 'DESIGN.md section 5, C08',
}


from . import shared as _shared
_shared.register('C08', 'C08')
