"""Rules shared by several properties (necessary conditions stated once)."""
import ast

from ..index import walk_no_nested, dotted, src
from ..util import one_shot_reuse


def cross_wired_options(ctx, rule_id, files, what):
    n = 0
    found = []
    for rel in files:
        m = ctx.ix.module(rel)
        for fd in [x for x in ast.walk(m.tree) if isinstance(x, (ast.FunctionDef, ast.AsyncFunctionDef))]:
            params = {a.arg for a in fd.args.args + fd.args.kwonlyargs}
            for st in walk_no_nested(fd):
                if isinstance(st, ast.Assign) and len(st.targets) == 1 and isinstance(st.targets[0], ast.Attribute) and isinstance(st.targets[0].value, ast.Name) \
                        and st.targets[0].value.id == 'self' and st.targets[0].attr in params:
                    n += 1
                    if isinstance(st.value, ast.Name) and st.value.id in params and st.value.id != st.targets[0].attr:
                        # the parameter of that name must not be stored anywhere else in the method either (a deliberate swap would store both)
                        found.append((rel, fd, st))
    for rel, fd, st in found:
        ctx.emit(rule_id, False, rel, st, f'{fd.name}: `{ast.unparse(st)}` stores the parameter `{st.value.id}` under the name of the parameter `{st.targets[0].attr}`: the value the caller passed for '
                 f'`{st.targets[0].attr}` is ignored', key=f'option-wiring:{fd.name}:{st.targets[0].attr}', what=f'{what}: option {st.targets[0].attr} is wired to {st.value.id}')
    if not found:
        ctx.emit(rule_id, True, files[0], None, f'{n} parameters stored under their own name; none stored under the name of another parameter', key='option-wiring', nontrivial=n > 0)


def _own_generators(m):
    return {fd.name for fd in ast.walk(m.tree) if isinstance(fd, ast.FunctionDef) and any(isinstance(x, (ast.Yield, ast.YieldFrom)) for x in walk_no_nested(fd))}


def _generator_names(ctx, m, files):
    """generator functions callable by their plain name in module m: its own, and module-level ones of the property's other files that m imports by name"""
    gens = set(_own_generators(m))
    imported = {a.asname or a.name: a.name for st in m.tree.body if isinstance(st, ast.ImportFrom) for a in st.names}
    if imported:
        for rel in files:
            if not ctx.ix.exists(rel):
                continue
            o = ctx.ix.module(rel)
            if o is m:
                continue
            top = {fd.name for fd in o.tree.body if isinstance(fd, ast.FunctionDef) and any(isinstance(x, (ast.Yield, ast.YieldFrom)) for x in walk_no_nested(fd))}
            gens |= {local for local, orig in imported.items() if orig in top}
    return gens


def _one_shot_value(v, gens):
    from ..util import ONE_SHOT_BUILTINS
    if isinstance(v, ast.GeneratorExp):
        return 'a generator expression'
    if isinstance(v, ast.Call):
        d = dotted(v.func) or ''
        ln = d.split('.')[-1]
        if d in ONE_SHOT_BUILTINS:
            return f'{d}(..)'
        if d.startswith('itertools.') and ln not in ('tee',):
            return f'{d}(..)'
        if ln in gens and (d == ln or d == 'self.' + ln):
            return f'the generator {ln}(..)'
    return None


def saved_one_shot_results(ctx, rule_id, files, what):
    """a method that saves its result in an attribute and answers later calls from it (`if self.X is None: self.X = ...; return self.X`) must save a re-iterable
    value: a generator / zip / map object is exhausted by the first caller, every later caller iterates over nothing.  Number of saving methods seen."""
    n = 0
    for rel in files:
        if not ctx.ix.exists(rel):
            continue
        m = ctx.ix.module(rel)
        gens = _generator_names(ctx, m, files)
        for fd in [x for x in ast.walk(m.tree) if isinstance(x, ast.FunctionDef) and x.args.args and x.args.args[0].arg == 'self']:
            returned = {src(r.value) for r in walk_no_nested(fd) if isinstance(r, ast.Return) and isinstance(r.value, ast.Attribute) and src(r.value.value) == 'self'}
            for st in walk_no_nested(fd):
                if isinstance(st, ast.Assign) and len(st.targets) == 1 and src(st.targets[0]) in returned:
                    n += 1
                    kind = _one_shot_value(st.value, gens)
                    if kind is not None:
                        ctx.emit(rule_id, False, rel, st, f'{fd.name} saves {kind} in {src(st.targets[0])} and returns the saved object on later calls: the first consumer exhausts it, every later '
                                 f'call gets an iterator that yields nothing', key=f'saved-one-shot:{fd.name}:{src(st.targets[0])}',
                                 witness={'history': [f'list(x.{fd.name}()) -> the items', f'list(x.{fd.name}()) -> []']}, what=f'{what}: the second call of {fd.name} yields nothing')
    return n



def module_table_memos(ctx, rule_id, files, what):
    """a module-level table that a function fills and answers from (`hit = _T.get(key)` ... `_T[key] = value`) lives as long as the process: the stored value may depend only on
    what the key contains - a parameter that shapes the value but is missing from the key gives every later call with another value of it the answer of the first."""
    from ..index import names_in
    n = 0
    for rel in files:
        if not ctx.ix.exists(rel):
            continue
        m = ctx.ix.module(rel)
        tables = {t.id for st in m.tree.body if isinstance(st, ast.Assign) for t in st.targets if isinstance(t, ast.Name)
                  and ((isinstance(st.value, ast.Dict) and not st.value.keys) or (isinstance(st.value, ast.Call) and (dotted(st.value.func) or '').split('.')[-1] in ('dict', 'defaultdict', 'OrderedDict') and not st.value.args))}
        if not tables:
            continue
        for f in [x for x in ast.walk(m.tree) if isinstance(x, ast.FunctionDef)]:
            params = {a.arg for a in f.args.args + f.args.kwonlyargs} - {'self', 'cls'}
            defs = {}
            for s_ in walk_no_nested(f):
                if isinstance(s_, ast.Assign):
                    for t in s_.targets:
                        for x in ast.walk(t):
                            if isinstance(x, ast.Name):
                                defs.setdefault(x.id, []).append(s_.value)
                elif isinstance(s_, ast.With):
                    for it in s_.items:
                        if isinstance(it.optional_vars, ast.Name):
                            defs.setdefault(it.optional_vars.id, []).append(it.context_expr)

            def deps(e, seen=(), key=False):
                # parameters and fields of the instance the expression is computed from; inside a key, `len(X)` identifies the size of X only
                out = set()
                if key and isinstance(e, ast.Call) and isinstance(e.func, ast.Name) and e.func.id == 'len':
                    return {'len(..)'}
                if isinstance(e, ast.Attribute) and isinstance(e.value, ast.Name) and e.value.id in ('self', 'cls'):
                    return {f'self.{e.attr}'}
                if isinstance(e, ast.Name):
                    if e.id in params:
                        return {e.id}
                    if e.id in defs and e.id not in seen:
                        for v_ in defs[e.id]:
                            out |= deps(v_, seen + (e.id,), key)
                    return out
                for c_ in ast.iter_child_nodes(e):
                    if isinstance(c_, ast.AST) and not isinstance(c_, (ast.expr_context, ast.operator, ast.cmpop, ast.boolop, ast.unaryop)):
                        out |= deps(c_, seen, key)
                return out
            for s_ in walk_no_nested(f):
                if not (isinstance(s_, ast.Assign) and any(isinstance(t, ast.Subscript) and isinstance(t.value, ast.Name) and t.value.id in tables for t in s_.targets)):
                    continue
                t = [t for t in s_.targets if isinstance(t, ast.Subscript) and isinstance(t.value, ast.Name) and t.value.id in tables][0]
                tab, key = t.value.id, t.slice
                read_back = [x for x in walk_no_nested(f) if isinstance(x, ast.Name) and x.id == tab and isinstance(x.ctx, ast.Load) and not any(y is x for y in ast.walk(s_))]
                if not read_back:
                    continue
                n += 1
                kd, vd = deps(key, key=True), deps(s_.value)
                extra = sorted(vd - kd)
                ctx.emit(rule_id, not extra, rel, s_, f'{f.name} memoises in the module table {tab} under `{src(key)}` ' + ('(the key covers every parameter the stored value depends on)' if not extra else
                         f'(= {sorted(kd)}), but the stored value is computed from {sorted(vd)}: it depends on {extra}, which the key lacks - a later call with another `{extra[0]}` in the same process is answered '
                         f'with the entry of the first'), key=f'module-memo-key-complete:{f.name}:{tab}',
                         witness={'history': [f'{f.name}(.., {extra[0]}=a)', f'{f.name}(.., {extra[0]}=b) -> the value computed for a']} if extra else None,
                         what=f'{what}: {f.name} caches per process under a key that lacks {extra}')
    return n



def single_pass_iterators(ctx, rule_id, files, what):
    """no function of `files` consumes a single-pass iterator twice (see util.one_shot_reuse)"""
    nfun = 0
    found = []
    for rel in files:
        if not ctx.ix.exists(rel):
            continue
        m = ctx.ix.module(rel)
        gens = _generator_names(ctx, m, files)
        for fd in [x for x in ast.walk(m.tree) if isinstance(x, (ast.FunctionDef, ast.AsyncFunctionDef))]:
            nfun += 1
            for name, bind, s1, s2, text in one_shot_reuse(fd, gens):
                found.append((rel, fd, bind, text))
    ctx.need(rule_id, nfun, 3, 'functions inspected for re-used single-pass iterators')
    for rel, fd, bind, text in found:
        ctx.emit(rule_id, False, rel, bind, f'{fd.name}: {text}', key=f'single-pass-iterator:{fd.name}', what=f'{what}: {fd.name} consumes a single-pass iterator twice')
    if not found:
        ctx.emit(rule_id, True, files[0], None, f'{nfun} functions: no single-pass iterator (zip / map / generator) bound to a local is consumed twice or inside a later loop', key='single-pass-iterator')


from .slots import (P, BTM, TAGGING, BAMFUNC, BINCOUNTS, COUNTTABLE, BINNING, SEQUTILS, LOADER, BASEDEMUX, DEMUXMODS, FQITER, FQHANDLE, HANDLELIM,
                    BARCODEPARSER, TAGS, MOLECULE, MOLITER, FRAGMENT, FRAG_NLA, FRAG_CHIC, TAPS, FEATURES, ALLELES, UBT)

MOL_CHIC = P + 'molecule/chic.py'
MOL_NLA = P + 'molecule/nlaIII.py'
MOL_FEAT = P + 'molecule/featureannotatedmolecule.py'
ITERATION = P + 'utils/iteration.py'
# the files whose functions implement each property (its anchors); DEMUXMODS stands for every module of that directory
FILES = {
    'C01': [LOADER, BASEDEMUX, FQITER, FQHANDLE, DEMUXMODS],
    'C02': [BASEDEMUX, DEMUXMODS],
    'C03': [BARCODEPARSER],
    'C04': [BASEDEMUX, UBT, TAGS, DEMUXMODS],
    'C05': [BTM, TAGGING, BAMFUNC, MOLITER],
    'C06': [MOLECULE, MOLITER, FRAGMENT, FRAG_NLA, FRAG_CHIC, MOL_CHIC, MOL_NLA],
    'C07': [MOLITER, MOLECULE, FRAGMENT],
    'C08': [BTM, TAGGING, BAMFUNC, BINCOUNTS, MOLITER],
    'C09': [FRAG_NLA, FRAG_CHIC, MOL_CHIC, MOL_NLA, FRAGMENT],
    'C10': [COUNTTABLE, BINNING],
    'C11': [COUNTTABLE],
    'C12': [BINCOUNTS],
    'C13': [MOLECULE, FRAGMENT, SEQUTILS],
    'C14': [TAPS, MOLECULE, FRAGMENT],
    'C15': [MOLECULE, ITERATION],
    'C16': [FEATURES, MOL_FEAT, FRAGMENT],
    'C17': [BINCOUNTS],
    'C18': [ALLELES],
    'C19': [HANDLELIM, FQHANDLE],
    'C20': [BTM, TAGGING, BAMFUNC, MOLITER],
}


MEMO_CLASSES = {
    # classes whose memoised lookup methods (if any) must be cleared by every method that changes what they read
    'C03': [(BARCODEPARSER, 'BarcodeParser')],
}


FILE_OPENERS = {'open', 'gzip.open', 'bz2.open', 'lzma.open', 'pysam.AlignmentFile', 'AlignmentFile', 'pysam.FastaFile', 'FastaFile', 'pysam.VariantFile', 'VariantFile', 'pysam.TabixFile',
                'pd.read_csv', 'pd.read_pickle', 'pd.read_table', 'np.load', 'np.loadtxt', 'pickle.load'}


def _reads_file_of_param(m, fd, depth=0):
    """(parameter, opener call) when the function - directly or through a module-level function it hands the parameter to (two levels) - opens the file a parameter names"""
    params = {a.arg for a in fd.args.args + fd.args.kwonlyargs}
    for c in [x for x in ast.walk(fd) if isinstance(x, ast.Call)]:
        d = dotted(c.func) or ''
        passed = [(i, a.id) for i, a in enumerate(c.args) if isinstance(a, ast.Name) and a.id in params] + [(k.arg, k.value.id) for k in c.keywords if isinstance(k.value, ast.Name) and k.value.id in params]
        if not passed:
            continue
        if d in FILE_OPENERS:
            return passed[0][1], f'`{src(c)[:50]}`'
        if depth < 2 and isinstance(c.func, ast.Name) and c.func.id in m.defs and isinstance(m.defs[c.func.id][-1], ast.FunctionDef):
            g = m.defs[c.func.id][-1]
            gparams = [a.arg for a in g.args.args]
            for pos, name in passed:
                gp = gparams[pos] if isinstance(pos, int) and pos < len(gparams) else pos if isinstance(pos, str) else None
                if gp is None:
                    continue
                sub = _reads_file_of_param_named(m, g, gp, depth + 1)
                if sub is not None:
                    return name, f'through {g.name}: {sub}'
    return None


def _reads_file_of_param_named(m, g, gp, depth):
    for c in [x for x in ast.walk(g) if isinstance(x, ast.Call)]:
        d = dotted(c.func) or ''
        uses = any(isinstance(a, ast.Name) and a.id == gp for a in c.args) or any(isinstance(k.value, ast.Name) and k.value.id == gp for k in c.keywords)
        if not uses:
            continue
        if d in FILE_OPENERS or (isinstance(c.func, ast.Name) and c.func.id in ('opener',)):
            return f'`{src(c)[:50]}`'
        if depth < 2 and isinstance(c.func, ast.Name) and c.func.id in m.defs and isinstance(m.defs[c.func.id][-1], ast.FunctionDef):
            h = m.defs[c.func.id][-1]
            hp = [a.arg for a in h.args.args]
            for i, a in enumerate(c.args):
                if isinstance(a, ast.Name) and a.id == gp and i < len(hp):
                    sub = _reads_file_of_param_named(m, h, hp[i], depth + 1)
                    if sub is not None:
                        return f'{h.name}: {sub}'
    return None



def memoised_functions(ctx, rule_id, prop, files, what):
    """S3: a memoising decorator (functools.lru_cache / cache) keeps the RESULT OBJECT of the first call.
    (a) on a generator function that object is a generator: the second call with equal arguments gets the exhausted generator back;
    (b) on a method of a class whose state changes after construction the result must be dropped by every method that changes what the memoised
        method reads (the cache-invalidation typestate of C16, applied to the classes of MEMO_CLASSES)."""
    from .C16 import is_memo_decorator, analyse_class
    nfun, bad = 0, 0
    for rel in files:
        m = ctx.ix.module(rel)
        for fd in [x for x in ast.walk(m.tree) if isinstance(x, (ast.FunctionDef, ast.AsyncFunctionDef))]:
            nfun += 1
            if not any(is_memo_decorator(d) for d in fd.decorator_list):
                continue
            if any(isinstance(x, (ast.Yield, ast.YieldFrom)) for x in walk_no_nested(fd)):
                bad += 1
                ctx.emit(rule_id, False, rel, fd, f'{fd.name} is a generator function under a memoising decorator: the cache holds the generator object of the first call, every later '
                         f'call with equal arguments receives that same, already exhausted generator and iterates over nothing', key=f'memoised-generator:{fd.name}',
                         what=f'{what}: the second call of {fd.name} with the same arguments yields nothing')
            rd = _reads_file_of_param(m, fd)
            if rd is not None:
                bad += 1
                ctx.emit(rule_id, False, rel, fd, f'{fd.name} is memoised on its arguments but reads the file named by `{rd[0]}` ({rd[1]}): the cache is keyed by the path, not by what the file '
                         f'holds - after the file was rewritten the old content is still answered', key=f'memoised-file-reader:{fd.name}',
                         witness={'history': [f'{fd.name}(path)', 'the file at path is rewritten', f'{fd.name}(path) -> result of the first call']},
                         what=f'{what}: {fd.name} answers from a file content that is no longer there')
    for rel, cls in MEMO_CLASSES.get(prop, []):
        res = analyse_class(ctx, rel, cls, rule_id)
        if res is None:
            continue
        memo, reads, results = res
        for mname, wname, fields, ok, problems, wf, n_paths in results:
            if not ok:
                bad += 1
                ctx.emit(rule_id, False, rel, wf, f'{cls}.{wname} writes {fields} read by the memoised {cls}.{mname} and does not clear its cache: ' + '; '.join(problems),
                         key=f'memo-stale:{mname}:{wname}', what=f'{what}: {cls}.{mname} keeps answering from results computed before {wname} changed {fields}')
    ctx.need(rule_id, nfun, 3, 'functions inspected for memoising decorators')
    if not bad:
        ctx.emit(rule_id, True, files[0], None, f'{nfun} functions: no generator function is memoised; memoised methods of {[c for _, c in MEMO_CLASSES.get(prop, [])]} are cleared by '
                 f'every writer', key='memoised-functions')


def files_of(ctx, prop):
    out = []
    for f in FILES[prop]:
        if f.endswith('/'):
            out += sorted(p for p in ctx.ix.pyfiles() if p.startswith(f))
        elif ctx.ix.exists(f):
            out.append(f)
    return out


def register(prop, title):
    """registers the shared rules under the property's own rule ids (<prop>-S1, ...)"""
    from ..core import rule

    @rule(prop, f'{prop}-S1', 'single-pass iterators (zip / map / filter / generator expressions / generator calls bound to a local) in the functions that implement the '
                              'property are consumed once: a second consumer, or a consumer inside a later loop, silently sees an empty sequence')
    def s1(ctx, prop=prop, title=title):
        single_pass_iterators(ctx, f'{prop}-S1', files_of(ctx, prop), title)

    @rule(prop, f'{prop}-S2', 'option wiring: where a method stores one of its parameters in an attribute that carries the name of ANOTHER of its parameters '
                              '(`self.yield_overflow = yield_invalid`), the option the caller set never arrives and a different one is used in its place')
    def s2(ctx, prop=prop, title=title):
        cross_wired_options(ctx, f'{prop}-S2', files_of(ctx, prop), title)

    @rule(prop, f'{prop}-S3', 'memoising decorators: no generator function of the implementing files is wrapped in lru_cache / cache (the cached generator object is exhausted after '
                              'the first call), and a memoised lookup method of a class that changes after construction is cleared by every method that writes what it reads')
    def s3(ctx, prop=prop, title=title):
        memoised_functions(ctx, f'{prop}-S3', prop, files_of(ctx, prop), title)
        saved_one_shot_results(ctx, f'{prop}-S3', files_of(ctx, prop), title)
        module_table_memos(ctx, f'{prop}-S3', files_of(ctx, prop), title)
    return s1


def memo_invalidation(ctx, rule_id, rel, cls_name, roots, mutator='_add_fragment', what=''):
    """A method that answers from a saved result (`if self.X is not None: return self.X`) is only right while the object does not change: every such
    saved field of the methods reachable from `roots` (through self.method() calls) is re-set by the mutator (the method through which fragments
    join).  Returns the number of methods inspected."""
    from ..util import reach_conds
    from ..index import src
    cls = ctx.ix.cls(rel, cls_name)
    methods = {x.name: x for x in cls.body if isinstance(x, ast.FunctionDef)}
    seen, todo = set(), list(roots)
    while todo:
        m = todo.pop()
        if m in seen or m not in methods:
            continue
        seen.add(m)
        for c in walk_no_nested(methods[m]):
            if isinstance(c, ast.Call) and isinstance(c.func, ast.Attribute) and isinstance(c.func.value, ast.Name) and c.func.value.id == 'self':
                todo.append(c.func.attr)
    memo = {}
    for name in sorted(seen):
        m = methods[name]
        for r in [x for x in walk_no_nested(m) if isinstance(x, ast.Return) and x.value is not None]:
            attrs = {n.attr for n in ast.walk(r.value) if isinstance(n, ast.Attribute) and isinstance(n.value, ast.Name) and n.value.id == 'self'}
            conds = reach_conds(m.body, r) or []
            for a in attrs:
                if any(f'self.{a}' in {src(n) for n in ast.walk(t)} for t, pol in conds):
                    memo.setdefault(a, []).append((m, r))
    mut = methods.get(mutator)
    reset = set()
    if mut is not None:
        for st in walk_no_nested(mut):
            if isinstance(st, (ast.Assign, ast.AugAssign, ast.Delete)):
                for t in (st.targets if not isinstance(st, ast.AugAssign) else [st.target]):
                    if isinstance(t, ast.Attribute) and isinstance(t.value, ast.Name) and t.value.id == 'self':
                        reset.add(t.attr)
    ctx.need(rule_id, len(seen), 1, f'methods reachable from {roots}')
    bad = [(a, ms) for a, ms in memo.items() if a not in reset]
    for a, ms in bad:
        m, r = ms[0]
        ctx.emit(rule_id, False, rel, r, f'{cls_name}.{m.name} answers from the saved `self.{a}` but {cls_name}.{mutator} does not reset it: after another fragment joins the molecule the '
                 f'stale result of the smaller molecule is returned', key=f'saved-result-invalidated:{a}', what=f'{what}: saved result self.{a} is never invalidated')
    if not bad:
        ctx.emit(rule_id, True, rel, methods[sorted(seen)[0]], f'{len(seen)} methods reachable from {roots}: saved results {sorted(memo)} are all reset by {mutator}', key='saved-result-invalidated',
                 nontrivial=bool(memo))
    return len(seen)
