"""C17 - blacklist-aware genome tiling: overlap predicate, merge, fetch-window clamp, tail step, chunking."""
import ast

from ..core import rule
from ..index import AnalysisError, dotted, src, walk_no_nested, names_in
from ..cfg import CFG, UNK
from ..domains import check_pred, check_exprs, linform, Lin
from ..util import node_calls, own_expr, pred_is
from .slots import BINCOUNTS, BINNING

FN = 'blacklisted_binning'


def tiling_model(ctx):
    """blacklisted_binning (with trim_rangelist, merge_overlapping_ranges, fill_range as they are) run by the abstract interpreter on every small tiling problem: regions
    [0,9) / [2,10) / [0,1), bin sizes 1 / 2 / 3 / 5 / 20, no / one / two blacklisted intervals (overlapping each other, the region ends or lying outside), fragment size
    none / 1 / 3.  Checked is the property itself: every bin is non-empty and no larger than the requested size, bins and blacklisted bases cover the region exactly once,
    every fetch window contains its bin, extends by at most the fragment size and stays inside the region and off the blacklist.  (ok, cases, witness) / None.  Cached."""
    if hasattr(ctx, '_tiling_model'):
        return ctx._tiling_model
    import itertools
    from ..consteval import run_function, Raised, Unfoldable, module_scope, LocalFn
    ctx._tiling_model = None
    try:
        env = module_scope(ctx.ix, BINCOUNTS)
        f = env.get('blacklisted_binning')
        if not isinstance(f, LocalFn):
            return None
    except Exception:
        return None
    ivs = [(a, b) for a in range(-1, 11) for b in range(a + 1, min(a + 4, 13))]
    bls = [()] + [(x,) for x in ivs[::2]] + [(x, y) for x in ivs[::4] for y in ivs[1::5]]
    # chains and nests of three and four intervals (merged in more than one pass), sorted by start like the callers hand them over
    bls += [tuple(sorted(c_)) for c_ in (((1, 3), (2, 5), (4, 7)), ((0, 8), (1, 2), (3, 4)), ((1, 2), (2, 4), (4, 6), (6, 8)), ((0, 2), (1, 3), (5, 6), (5, 8)), ((3, 4), (3, 4), (3, 6)),
                                         ((1, 4), (2, 3), (3, 6), (7, 9)), ((2, 6), (3, 4), (4, 5), (8, 12)))]
    n = 0
    try:
        for s_, e_ in ((0, 9), (2, 10), (0, 1)):
            for bs in (1, 2, 3, 5, 20):
                for bl in bls:
                    for F in (None, 0, 1, 3):
                        if F == 0 and (bs in (2, 20) or len(bl) > 1):
                            continue
                        n += 1
                        case = {'region': (s_, e_), 'bin size': bs, 'blacklist [start, end)': list(bl), 'fragment size': F}
                        try:
                            got = [tuple(t_) for t_ in run_function(f.fdef, [s_, e_, bs], {'blacklist': [tuple(x) for x in bl], 'fragment_size': F}, env=f.scope, budget=100000)]
                        except Raised as r_:
                            ctx._tiling_model = (False, n, dict(case, problem=f'raises {r_.name}'))
                            return ctx._tiling_model
                        B = set()
                        for a, b in bl:
                            B |= set(range(max(a, s_), min(b, e_)))
                        cover, problem = [], None
                        for t_ in got:
                            a, b = t_[0], t_[1]
                            if not a < b:
                                problem = f'empty / inverted bin {t_}'
                            elif b - a > bs:
                                problem = f'bin {t_[:2]} is larger than the requested size'
                            cover += list(range(a, b))
                            if F is not None and problem is None:
                                if len(t_) != 4:
                                    problem = f'no fetch window for bin {t_}'
                                else:
                                    fs, fe = t_[2], t_[3]
                                    if not (fs <= a and fe >= b):
                                        problem = f'fetch window {(fs, fe)} does not contain its bin {(a, b)}'
                                    elif a - fs > F or fe - b > F:
                                        problem = f'fetch window {(fs, fe)} extends bin {(a, b)} by more than the fragment size'
                                    elif fs < s_ or fe > e_:
                                        problem = f'fetch window {(fs, fe)} leaves the region'
                                    elif set(range(fs, fe)) & B:
                                        problem = f'fetch window {(fs, fe)} reaches into a blacklisted interval'
                                    else:
                                        # ... and is not smaller than it has to be: the margin is cut only by the ends of the free stretch the bin lies in (C08-R4)
                                        gs, ge = a, b
                                        while gs - 1 >= s_ and (gs - 1) not in B:
                                            gs -= 1
                                        while ge < e_ and ge not in B:
                                            ge += 1
                                        if (fs, fe) != (max(gs, a - F), min(ge, b + F)):
                                            problem = f'fetch window {(fs, fe)} of bin {(a, b)} is not (max(gap start, bin start - F), min(gap end, bin end + F)) = {(max(gs, a - F), min(ge, b + F))}: the bin loses margin the gap allows'
                        if problem is None and sorted(cover + sorted(B)) != list(range(s_, e_)):
                            missing = sorted(set(range(s_, e_)) - set(cover) - B)
                            twice = sorted({x for x in cover if cover.count(x) > 1 or x in B})
                            outside = sorted(x for x in cover if not s_ <= x < e_)
                            problem = f'bins + blacklist do not cover the region exactly once: uncovered {missing}, covered twice / blacklisted {twice}, outside the region {outside}'
                        if problem is not None:
                            ctx._tiling_model = (False, n, dict(case, bins=got, problem=problem))
                            return ctx._tiling_model
    except (Unfoldable,):
        return None
    except Exception:
        return None
    ctx._tiling_model = (True, n, None)
    return ctx._tiling_model


def _tiling_model_or_structural(ctx, rid, structural):
    """the structural reading of the tiling code decides; where it cannot follow a restructured function the small-scope evaluation of the tiling property itself decides"""
    from ..core import Ctx, VIOLATED, UNDECIDED
    from ..index import AnalysisError
    sub = Ctx(ctx.ix, 'C17', ctx.tier)
    err = None
    try:
        structural(sub)
    except AnalysisError as e_:
        err = e_
    except Exception as e_:
        err = AnalysisError(f'structural reading failed ({type(e_).__name__}: {e_})')
    for k_, v_ in sub.counters.items():
        ctx.counters[k_] = (ctx.counters.get(k_, set()) | v_) if isinstance(v_, set) else ctx.counters.get(k_, 0) + v_
    for k_, v_ in getattr(sub, 'exhaustive', {}).items():
        ctx.exhaustive[k_] = v_
    open_ = [o for o in sub.obligations if o.status in (VIOLATED, UNDECIDED)]
    if err is None and not open_:
        ctx.obligations.extend(sub.obligations)
        return
    m = tiling_model(ctx)
    if m is None or not m[0]:
        ctx.obligations.extend(sub.obligations)           # the model's own finding is reported by C17-R9
        if err is not None:
            raise err
        return
    ctx.obligations.extend([o for o in sub.obligations if o not in open_])
    ctx.emit(rid, True, BINCOUNTS, ctx.fn(BINCOUNTS, 'blacklisted_binning'), f'decided by the tiling model ({m[1]} tiling problems satisfy the property); the structural reading did not follow {len(open_)} construct(s) '
             'of the restructured functions', key='by-tiling-model')


@rule('C17', 'C17-R1', 'the blacklist is trimmed with the exact half-open overlap test and both ends are clamped to the region; '
                       'overlapping blacklist ranges are merged to (min start, max end)')
def r1(ctx):
    _tiling_model_or_structural(ctx, 'C17-R1', _r1_structural)


def _r1_structural(ctx):
    f = ctx.fn(BINCOUNTS, 'trim_rangelist')
    loops = [l for l in f.body if isinstance(l, ast.For)]
    if len(loops) != 1 or not isinstance(loops[0].target, ast.Tuple):
        raise AnalysisError('trim_rangelist: loop over (s, e) not found')
    s_, e_ = [x.id for x in loops[0].target.elts]
    st, en = f.args.args[1].arg, f.args.args[2].arg
    ren = {s_: 's', e_: 'e', st: 'start', en: 'end'}
    atom = lambda x: ren.get(src(x))
    # the overlap decision: condition under which the range is yielded
    cfg = CFG(loops[0].body, exceptions=False)
    ys = [n for n in cfg.nodes if n.kind == 'stmt' and isinstance(n.ast, ast.Expr) and isinstance(n.ast.value, ast.Yield)]
    if len(ys) != 1:
        raise AnalysisError('trim_rangelist: expected exactly one yield')
    # inline boolean locals (overlap = ...) assigned once from comparison expressions
    local = {}
    for a in walk_no_nested(loops[0]):
        if isinstance(a, ast.Assign) and isinstance(a.targets[0], ast.Name):
            local.setdefault(a.targets[0].id, []).append(a.value)

    def inline(e):
        class T(ast.NodeTransformer):
            def visit_Name(self, n):
                if n.id in local and len(local[n.id]) == 1 and n.id not in ren:
                    return self.visit(local[n.id][0])
                return n
        import copy
        return T().visit(copy.deepcopy(e))
    disj = []
    for p, _ in cfg.paths():
        if ys[0].id not in [nid for nid, _l in p]:
            continue
        conds = []
        for nid, lab in p:
            nn = cfg.nodes[nid]
            if nn.kind == 'test' and nid != p[-1][0]:
                t = inline(nn.ast.test)
                conds.append(t if lab == 'true' else ast.UnaryOp(op=ast.Not(), operand=t))
            if nid == ys[0].id:
                break
        disj.append(conds[0] if len(conds) == 1 else ast.BoolOp(op=ast.And(), values=conds) if conds else ast.Constant(True))
    multi = any(len(v) > 1 for k, v in local.items())
    if multi:
        ctx.emit('C17-R1', False, BINCOUNTS, loops[0], 'overlap flag is assigned on several paths (flag-accumulation idiom): evaluated per path is not supported', key='overlap-predicate', undecided=True)
    else:
        pred = disj[0] if len(disj) == 1 else ast.BoolOp(op=ast.Or(), values=disj)
        ncase, bad = check_pred(pred, lambda e: max(e['s'], e['start']) < min(e['e'], e['end']), symbols=['s', 'e', 'start', 'end'],
                                constraint=lambda e: e['s'] < e['e'] and e['start'] < e['end'], atom_name=atom)
        ctx.counters['abstract_cases'] += ncase
        ctx.emit('C17-R1', not bad, BINCOUNTS, loops[0], f'trim_rangelist keeps a range iff `{src(pred)[:90]}`: {ncase} orderings of (s,e,start,end) incl. all 13 Allen relations; ' +
                 ('== the half-open intervals overlap' if not bad else f'differs from true overlap at {bad[0]["case"]} (code {bad[0]["code"]}, truth {bad[0]["spec"]})'),
                 key='overlap-predicate', witness=bad[0] if bad else None, what='trim_rangelist: overlap test differs from true interval overlap')
        ctx.exhaustive['C17-R1'] = True
    yv = ys[0].ast.value.value
    if isinstance(yv, ast.Tuple) and len(yv.elts) == 2:
        try:
            ncase, bad = check_exprs(yv.elts, lambda e: (max(e['s'], e['start']), min(e['e'], e['end'])), ['s', 'e', 'start', 'end'],
                                     constraint=lambda e: e['s'] < e['e'] and e['start'] < e['end'] and max(e['s'], e['start']) < min(e['e'], e['end']), atom_name=atom)
            ctx.counters['abstract_cases'] += ncase
            ctx.emit('C17-R1', not bad, BINCOUNTS, ys[0].ast, f'trimmed range `{src(yv)}` over {ncase} overlapping cases ' +
                     ('== (max(s,start), min(e,end))' if not bad else f'leaves the region: {bad[0]}'), key='trim-clamps-both-ends', witness=bad[0] if bad else None)
        except AnalysisError as ex:
            ctx.emit('C17-R1', False, BINCOUNTS, ys[0].ast, f'trimmed range not interpretable: {ex}', key='trim-clamps-both-ends', undecided=True)
    # merge
    g = ctx.fn(BINCOUNTS, '_merge_overlapping_ranges')
    loops = [l for l in g.body if isinstance(l, ast.For)]
    if len(loops) != 1:
        raise AnalysisError('_merge_overlapping_ranges: loop not found')
    l = loops[0]
    try:
        if isinstance(l.target, ast.Tuple) and len(l.target.elts) == 4 and isinstance(l.iter, ast.Name):
            # the neighbouring pairs flattened by a generator expression bound to a local: for a, b, c, d in <(a, b, c, d) for (a, b), (c, d) in pairs>
            gd = [a_ for a_ in g.body if isinstance(a_, ast.Assign) and len(a_.targets) == 1 and src(a_.targets[0]) == l.iter.id]
            ge = gd[0].value if len(gd) == 1 else None
            if not (isinstance(ge, ast.GeneratorExp) and len(ge.generators) == 1 and not ge.generators[0].ifs and isinstance(ge.elt, ast.Tuple)):
                raise ValueError
            (p0, p1), (q0, q1) = [[x.id for x in t.elts] for t in ge.generators[0].target.elts]
            if [src(x) for x in ge.elt.elts] != [p0, p1, q0, q1]:
                raise ValueError
            a0, a1, b0, b1 = [x.id for x in l.target.elts]
        else:
            (a0, a1), (b0, b1) = [[x.id for x in t.elts] for t in l.target.elts]
    except Exception:
        raise AnalysisError('_merge_overlapping_ranges: loop target is not ((start,end),(next_start,next_end))')
    ren2 = {a0: 'a0', a1: 'a1', b0: 'b0', b1: 'b1'}
    atom2 = lambda x: ren2.get(src(x))
    srt = lambda e: e['a0'] < e['a1'] and e['b0'] < e['b1'] and (e['a0'], e['a1']) <= (e['b0'], e['b1'])
    # the two things one step can emit: the current range unchanged, or the union with its successor; which one is decided by the guards on the
    # four coordinates that hold where the yield is reached (guards on bookkeeping flags are not part of the decision)
    from ..util import reach_expr
    coords = {a0, a1, b0, b1}
    lys = [y for y in walk_no_nested(l) if isinstance(y, ast.Yield) and y.value is not None]
    passes = [y for y in lys if src(y.value).replace('(', '').replace(')', '').replace(' ', '') == f'{a0},{a1}']
    merges = [y for y in lys if y not in passes]
    if len(passes) != 1 or len(merges) != 1:
        ctx.emit('C17-R1', False, BINCOUNTS, g, f'merge decision not found ({len(merges)} merging and {len(passes)} pass-through yields in the pair loop)', key='merge-predicate', undecided=True)
    else:
        my, py = merges[0], passes[0]
        t = reach_expr(l.body, my, drop=lambda t_: not (names_in(t_) & coords))
        tp = reach_expr(l.body, py, drop=lambda t_: not (names_in(t_) & coords))
        ncase, bad = check_pred(t, lambda e: e['a1'] > e['b0'], symbols=['a0', 'a1', 'b0', 'b1'], constraint=srt, atom_name=atom2)
        ncase2, bad2 = check_pred(tp, lambda e: not e['a1'] > e['b0'], symbols=['a0', 'a1', 'b0', 'b1'], constraint=srt, atom_name=atom2)
        ctx.counters['abstract_cases'] += ncase + ncase2
        ctx.emit('C17-R1', not bad and not bad2, BINCOUNTS, my, f'merge test over {ncase} sorted range pairs ' + ('== the ranges overlap (end > next start)' if not (bad or bad2) else f'differs: {(bad or bad2)[0]}'),
                 key='merge-predicate', witness=(bad or bad2)[0] if (bad or bad2) else None)
        if isinstance(my.value, ast.Tuple) and len(my.value.elts) == 2:
            ncase, bad = check_exprs(my.value.elts, lambda e: (min(e['a0'], e['b0']), max(e['a1'], e['b1'])), ['a0', 'a1', 'b0', 'b1'],
                                     constraint=lambda e: srt(e) and e['a1'] > e['b0'], atom_name=atom2)
            ctx.counters['abstract_cases'] += ncase
            ctx.emit('C17-R1', not bad, BINCOUNTS, my, f'merged range `{src(my.value)}` over {ncase} overlapping pairs ' +
                     ('== (min start, max end)' if not bad else f'is not the union, e.g. nested ranges {bad[0]["case"]} give {bad[0]["code"]} instead of {bad[0]["spec"]}'),
                     key='merge-union', witness=bad[0] if bad else None, what='_merge_overlapping_ranges: merged range is not the union of the two ranges')
        ctx.emit('C17-R1', True, BINCOUNTS, py, 'non-overlapping range is passed through unchanged', key='merge-passthrough', nontrivial=False)
    mo = ctx.fn(BINCOUNTS, 'merge_overlapping_ranges')
    # every return of the merged list happens where range_contains_overlap(<that list>) is false: after `while range_contains_overlap(x):`
    # or under `if not range_contains_overlap(x): return x` inside the loop; the list is sorted before each overlap test
    from ..util import reach_conds
    rets = [r_ for r_ in walk_no_nested(mo) if isinstance(r_, ast.Return)]
    whiles = [w for w in walk_no_nested(mo) if isinstance(w, ast.While)]
    ok = bool(rets) and len(whiles) == 1
    for r_ in rets:
        rv = src(r_.value) if r_.value is not None else None
        guard = f'range_contains_overlap({rv})'
        inside = any(x is r_ for x in walk_no_nested(whiles[0])) if whiles else False
        if inside:
            conds = [(t_.operand, not pol) if isinstance(t_, ast.UnaryOp) and isinstance(t_.op, ast.Not) else (t_, pol) for t_, pol in (reach_conds(whiles[0].body, r_) or [])]
            ok = ok and any(src(t_) == guard and pol is False for t_, pol in conds)
        else:
            ok = ok and bool(whiles) and src(whiles[0].test) == guard and not any(isinstance(x, ast.Break) for x in walk_no_nested(whiles[0]))
    asg = [a_ for a_ in walk_no_nested(mo) if isinstance(a_, ast.Assign)]
    ok = ok and bool(asg) and all(isinstance(a_.value, ast.Call) and dotted(a_.value.func) == 'sorted' for a_ in asg) and \
        any('_merge_overlapping_ranges(' in src(a_.value) for a_ in asg)
    if not ok:
        sem = _merge_by_interpretation(ctx, mo)
        if sem is not None:
            okm, ncase, wit = sem
            ctx.counters['abstract_cases'] += ncase
            ctx.emit('C17-R1', okm, BINCOUNTS, mo, f'merge_overlapping_ranges interpreted on {ncase} lists of up to three ranges over 0..5: ' +
                     ('the result is sorted, free of overlaps and covers exactly the positions of the input' if okm else f'differs: {wit}'), key='merge-fixpoint', witness=wit,
                     what='merge_overlapping_ranges: result overlaps / loses / adds blacklisted positions')
            return_after_merge = True
        else:
            return_after_merge = False
    if ok or not locals().get('return_after_merge'):
        ctx.emit('C17-R1', ok, BINCOUNTS, mo, 'merge_overlapping_ranges sorts and merges until no overlap remains', key='merge-fixpoint', nontrivial=False, undecided=not ok)
    # blacklisted_binning uses them
    b = ctx.fn(BINCOUNTS, FN)
    ok = any(isinstance(c, ast.Call) and dotted(c.func) == 'trim_rangelist' and [src(a) for a in c.args] == ['blacklist', b.args.args[0].arg, b.args.args[1].arg] for c in walk_no_nested(b)) \
        and any(isinstance(c, ast.Call) and dotted(c.func) == 'merge_overlapping_ranges' for c in walk_no_nested(b))
    ctx.emit('C17-R1', ok, BINCOUNTS, b, 'blacklisted_binning merges the blacklist and trims it to (start_coord, end_coord)', key='binning-uses-trim-and-merge', nontrivial=False)


def _binning_loops(ctx):
    f = ctx.fn(BINCOUNTS, FN)
    outer = [l for l in f.body if isinstance(l, ast.For)]
    if len(outer) != 1:
        raise AnalysisError('blacklisted_binning: outer loop not found')
    inner = [l for l, nm in _fill_range_loops(outer[0])]
    if len(inner) != 1:
        raise AnalysisError('blacklisted_binning: loop over fill_range not found')
    return f, outer[0], inner[0]


def _fill_range_loops(outer):
    """[(loop, local)] - the loops over the steps of fill_range inside `outer`: directly (`for .. in [enumerate(]fill_range(..)`) or through a local
    bound once to fill_range(..) / list(fill_range(..)) (local is that name, else None)"""
    out = []
    for l in walk_no_nested(outer):
        if not isinstance(l, ast.For) or l is outer:
            continue
        if 'fill_range' in src(l.iter):
            out.append((l, None))
            continue
        it = l.iter
        while isinstance(it, ast.Call) and dotted(it.func) in ('enumerate', 'iter', 'list', 'tuple') and it.args:
            it = it.args[0]
        if isinstance(it, ast.Name):
            dd = [a.value for a in walk_no_nested(outer) if isinstance(a, ast.Assign) and len(a.targets) == 1 and src(a.targets[0]) == it.id]
            if len(dd) == 1 and 'fill_range' in src(dd[0]) and not isinstance(dd[0], (ast.ListComp, ast.GeneratorExp)):
                out.append((l, it.id))
    return out


def _merge_by_interpretation(ctx, mo):
    import itertools
    from ..consteval import run_function, Unfoldable, Raised
    mod = ctx.ix.module(BINCOUNTS)
    fns = {q: d[0] for q, d in mod.defs.items() if '.' not in q and isinstance(d[0], ast.FunctionDef)}

    def hook(ev, call, env):
        d = dotted(call.func) or ''
        if d in fns and d != mo.name:
            return run_function(fns[d], [ev.ev(x, env) for x in call.args], {k.arg: ev.ev(k.value, env) for k in call.keywords if k.arg}, budget=40000, call_hook=hook)
        return NotImplemented
    ranges = [(a, b) for a in range(0, 6) for b in range(a + 1, 6)]
    n = 0
    try:
        for k in (1, 2, 3):
            for combo in itertools.product(ranges, repeat=k):
                if k == 3 and not combo[0] <= combo[1]:
                    continue
                n += 1
                got = run_function(mo, [list(combo)], budget=80000, call_hook=hook)
                got = [tuple(x) for x in list(got)]
                cover = sorted({p for a, b in combo for p in range(a, b)})
                gcover = sorted({p for a, b in got for p in range(a, b)})
                overlaps = any(x[1] > y[0] for x, y in zip(sorted(got), sorted(got)[1:]))
                if gcover != cover or overlaps or got != sorted(got):
                    return (False, n, {'input': list(combo), 'result': got, 'problem': 'overlapping ranges remain' if overlaps else ('not sorted' if got != sorted(got) else 'covered positions differ')})
    except (Unfoldable, Raised):
        return None
    except Exception:
        return None
    return (True, n, None)


def _cursor_aliases(outer, cur):
    """locals of the interval loop that are copies of the cursor taken before the bins of the gap are laid out (`gap_start = current`)"""
    return {a.targets[0].id for a in walk_no_nested(outer) if isinstance(a, ast.Assign) and len(a.targets) == 1 and isinstance(a.targets[0], ast.Name)
            and isinstance(a.value, ast.Name) and a.value.id == cur}


def _canon_cursor(text, outer, cur):
    import re
    for al in _cursor_aliases(outer, cur):
        text = re.sub(rf'\b{re.escape(al)}\b', cur, text)
    return text


def _cursor_name(f, outer):
    """the local that walks along the region: initialised from the region start before the outer loop and set to the end of the blacklisted
    interval in the loop (whatever it is called)"""
    bl_start, bl_end = _pair_target(outer)
    first = f.args.args[0].arg
    init = {s_.targets[0].id for s_ in f.body if isinstance(s_, ast.Assign) and len(s_.targets) == 1 and isinstance(s_.targets[0], ast.Name) and src(s_.value) == first}
    adv = {s_.targets[0].id for s_ in walk_no_nested(outer) if isinstance(s_, ast.Assign) and len(s_.targets) == 1 and isinstance(s_.targets[0], ast.Name) and src(s_.value) == bl_end}
    both = sorted(init & adv)
    return both[0] if len(both) == 1 else 'current'


def _pair_target(loop):
    """the (start, end) pair a loop binds: target `(a, b)` or `(i, (a, b))` (with or without an enumerate index)"""
    t = loop.target
    if isinstance(t, ast.Tuple) and len(t.elts) == 2 and isinstance(t.elts[1], ast.Tuple) and len(t.elts[1].elts) == 2:
        t = t.elts[1]
    if isinstance(t, ast.Tuple) and len(t.elts) == 2 and all(isinstance(x, ast.Name) for x in t.elts):
        return [x.id for x in t.elts]
    raise AnalysisError(f'blacklisted_binning: loop target `{src(loop.target)}` is not a (start, end) pair')


def value_numbering_at(f, target_node, names, max_visits=2):
    """Must-equality by value numbering along all CFG paths of f to `target_node` (a For AST node): returns the set of
    tuples (vid(name) for name in names) observed when the node is entered from outside (label of arrival irrelevant)."""
    cfg = CFG(f.body, exceptions=False)
    tids = [n.id for n in cfg.nodes if n.ast is target_node and n.kind == 'for']
    if not tids:
        raise AnalysisError('target loop not in CFG')
    seen = set()
    counter = [0]

    def vid_of(e, env):
        if isinstance(e, ast.Name):
            return env.get(e.id, ('init', e.id))
        return ('expr', src(e), tuple(sorted((n, env.get(n, ('init', n))) for n in names_in(e))))

    def step(state, node, label):
        env = dict(state)
        a = node.ast
        if node.id in tids and not env.get('__in_target__'):
            seen.add(tuple(env.get(n, ('init', n)) for n in names))
        if node.kind == 'stmt' and isinstance(a, ast.Assign):
            v = vid_of(a.value, env)
            for t in a.targets:
                if isinstance(t, ast.Name):
                    env[t.id] = v
                else:
                    for n in ast.walk(t):
                        if isinstance(n, ast.Name) and isinstance(n.ctx, ast.Store):
                            counter[0] += 1
                            env[n.id] = ('fresh', node.id, n.id)
        elif node.kind == 'stmt' and isinstance(a, ast.AugAssign) and isinstance(a.target, ast.Name):
            env[a.target.id] = ('aug', node.id, env.get(a.target.id))
        if node.id in tids:
            if label == 'true':
                env['__in_target__'] = True
            else:
                env.pop('__in_target__', None)
        if node.kind == 'for' and label == 'true':
            for n in ast.walk(a.target):
                if isinstance(n, ast.Name):
                    env[n.id] = ('iter', node.id, n.id, env.get(('visit', node.id), 0))
            env[('visit', node.id)] = env.get(('visit', node.id), 0) + 1
        return tuple(sorted(env.items(), key=lambda kv: str(kv[0])))

    # stop exploring below the target loop: we only need arrival states; still enumerate whole paths (small function)
    cfg.paths(state0=(), step=step, loop_visits=3, max_visits=max_visits, max_paths=300000)
    return seen


def window_analysis(ctx):
    """Analyse the fetch window of blacklisted_binning. Returns dict with the yield node, problems w.r.t. the C17 clauses
    (contains the bin, at most F, inside the gap) and problems w.r.t. exactness (margin as large as the gap allows; C08 relies on it)."""
    f, outer, inner = _binning_loops(ctx)
    bl_start, bl_end = _pair_target(outer)
    ps, pe = _pair_target(inner)
    frag = [a.arg for a in f.args.args if 'fragment' in a.arg][0]
    ys = [y for y in walk_no_nested(inner) if isinstance(y, ast.Yield) and isinstance(y.value, ast.Tuple) and len(y.value.elts) == 4]
    if len(ys) != 1:
        raise AnalysisError('blacklisted_binning: yield of (bin_start, bin_end, fetch_start, fetch_end) not found')
    y = ys[0]
    mod = ctx.ix.module(BINCOUNTS)
    arm = mod.parent[mod.parent[y]]
    stmts = arm.orelse if any(any(x is y for x in ast.walk(s)) for s in getattr(arm, 'orelse', [])) else arm.body
    cfg = CFG(stmts, exceptions=False)
    itgt = inner.target
    fi = itgt.elts[0].id if isinstance(itgt, ast.Tuple) and len(itgt.elts) == 2 and isinstance(itgt.elts[0], ast.Name) and isinstance(itgt.elts[1], ast.Tuple) else None
    results = []
    for p, _ in cfg.paths():
        env = {}
        conds = []
        hit = False
        for nid, lab in p:
            nn = cfg.nodes[nid]
            if nn.kind == 'test':
                conds.append((nn.ast.test, lab == 'true'))
            elif nn.kind == 'stmt' and isinstance(nn.ast, ast.Assign) and isinstance(nn.ast.targets[0], ast.Name):
                env[nn.ast.targets[0].id] = _subst(nn.ast.value, env)
            elif nn.kind == 'stmt' and isinstance(nn.ast, ast.Expr) and nn.ast.value is y:
                hit = True
                break
        if hit:
            # a test of the fragment-size parameter alone (`fragment_size is None`) selects the output format, it is not positional
            conds = [(c_, pol) for c_, pol in conds if names_in(c_) - {frag}]
            results.append((conds, [_subst(e, env) for e in y.value.elts]))
    ctx.counters['paths_enumerated'] += len(results)
    used = set()
    for conds, elts in results:
        for e in elts[2:]:
            used |= names_in(e)
    gap_lo_names = used - {ps, pe, frag, bl_start, bl_end, fi, 'min', 'max'}
    c17, exact = [], []
    witness = None
    cur = _cursor_name(f, outer)
    lo_name = None
    lo_mode = 'gap'       # 'gap': provably the gap start; 'cur': `current` itself (gap start for the first bin, bin start afterwards); 'free': unknown
    if len(gap_lo_names) == 1:
        lo_name = list(gap_lo_names)[0]
    elif len(gap_lo_names) > 1:
        c17.append(f'fetch window depends on unexpected names {sorted(gap_lo_names)}')
        lo_mode = 'free'
    if lo_name is not None:
        reassigned = any(isinstance(s, (ast.Assign, ast.AugAssign)) and lo_name in {n.id for t in (s.targets if isinstance(s, ast.Assign) else [s.target]) for n in ast.walk(t) if isinstance(n, ast.Name)}
                         for s in walk_no_nested(inner))
        if reassigned and lo_name == cur:
            lo_mode = 'cur'
            exact.append(f'`{lo_name}` (lower clamp) advances with every bin: after the first bin of a gap it is the bin start, not the gap start (left fetch margin lost)')
        elif reassigned:
            lo_mode = 'free'
        else:
            states = value_numbering_at(f, inner, [lo_name, cur])
            if not states:
                raise AnalysisError('bin loop unreachable')
            if any(a != b for a, b in states):
                lo_mode = 'free'
                a, b = [(a, b) for a, b in states if a != b][0]
                c17.append(f'`{lo_name}` is not the start of the current gap on every path into the bin loop (stale after a skipped blacklist interval): value {a} vs current {b}')
    n_paths = len(results)
    variants = {'gap': ['g'], 'cur': ['g', 'ps'], 'free': ['L']}[lo_mode]
    for (conds, elts), lo_sym in [(r_, v_) for r_ in results for v_ in variants]:
        ren = {ps: 'ps', pe: 'pe', frag: 'F', bl_start: 'G'}
        if lo_name:
            ren[lo_name] = lo_sym
        atom = lambda x, ren=ren: ren.get(src(x))
        syms = ['g', 'G', 'ps', 'pe', 'F'] + (['L'] if lo_sym == 'L' else [])
        base = lambda e: e['g'] <= e['ps'] < e['pe'] <= e['G'] and e['F'] >= 0
        cons = base if lo_sym != 'L' else (lambda e: base(e) and e['L'] <= e['ps'])
        if conds:
            msg = 'window depends on a positional test `' + ' / '.join(src(c) for c, _ in conds) + '` instead of clamping to the gap'
            c17.append(msg)
            continue
        try:
            def spec_ok(e, code):
                fs_, fe_ = code[2], code[3]
                return code[0] == e['ps'] and code[1] == e['pe'] and e['g'] <= fs_ <= e['ps'] and e['pe'] <= fe_ <= e['G'] and e['ps'] - fs_ <= e['F'] and fe_ - e['pe'] <= e['F']
            from ..domains import assignments, eval_num, consts_in, num_atoms
            for el in elts:
                for a_ in num_atoms(el, atom):
                    if a_ not in syms:
                        raise AnalysisError(f'unexpected atom {a_} in {src(el)}')
            ncase = 0
            for env in assignments(syms, (0,), (), cons):
                ncase += 1
                code = tuple(eval_num(el, env, atom) for el in elts)
                if not spec_ok(env, code):
                    kinds = []
                    if code[2] < env['g'] or code[3] > env['G']:
                        kinds.append('reaches outside the gap (region boundary / blacklisted interval)')
                    if code[2] > env['ps'] or code[3] < env['pe']:
                        kinds.append('does not contain the bin')
                    if env['ps'] - code[2] > env['F'] or code[3] - env['pe'] > env['F']:
                        kinds.append('extends by more than the fragment size')
                    c17.append(f'fetch window `({src(elts[2])}, {src(elts[3])})` ' + ', '.join(kinds or ['wrong bin']) + f' in case {env}: got {code}')
                    witness = {'case': dict(env), 'code': code}
                    break
                want = (env['ps'], env['pe'], max(env['g'], env['ps'] - env['F']), min(env['G'], env['pe'] + env['F']))
                if code != want and not any(x.startswith('window gives') for x in exact):
                    exact.append(f'window gives less margin than the gap allows in case {env}: got {code}, largest allowed {want}')
            ctx.counters['abstract_cases'] += ncase
        except AnalysisError as ex:
            c17.append(f'fetch window not interpretable: {ex}')
    return {'y': y, 'c17': c17, 'exact': exact, 'witness': witness, 'n_paths': n_paths, 'f': f, 'outer': outer, 'inner': inner,
            'names': (bl_start, bl_end, ps, pe, cur), 'mod': mod}


@rule('C17', 'C17-R2', 'each fetch window is clamped to its gap on both sides for every bin: it contains the bin, extends by at most the '
                       'fragment size and never leaves the gap between blacklisted intervals / the region')
def r2(ctx):
    _tiling_model_or_structural(ctx, 'C17-R2', _r2_structural)


def _r2_structural(ctx):
    w = window_analysis(ctx)
    y, problems, witness = w['y'], w['c17'], w['witness']
    f, outer, inner, mod = w['f'], w['outer'], w['inner'], w['mod']
    bl_start, bl_end, ps, pe, cur = w['names']
    ctx.need('C17-R2', w['n_paths'], 1, 'paths to the 4-tuple yield')
    ctx.emit('C17-R2', not problems, BINCOUNTS, y, 'fetch window: ' + ('for every ordering of (gap start, gap end, bin, fragment size) the window contains the bin, extends by at most F and stays inside the gap; '
                                                                    'the lower clamp is the gap start on all paths' if not problems else '; '.join(problems)), key='window-clamp', witness=witness,
             what='blacklisted_binning: fetch window is not clamped to the gap for every bin')
    if w['exact'] and not problems:
        ctx.info('C08 cross-reference: ' + '; '.join(w['exact']))
    ctx.exhaustive['C17-R2'] = True
    # the bins themselves: yielded (pos_s, pos_e) come from fill_range(current, start, local_bin_size); current follows the bins
    it = inner.iter
    base_it = it
    while isinstance(base_it, ast.Call) and dotted(base_it.func) in ('enumerate', 'iter', 'list', 'tuple') and base_it.args:
        base_it = base_it.args[0]
    if isinstance(base_it, ast.Name):
        dd_ = [a_.value for a_ in walk_no_nested(outer) if isinstance(a_, ast.Assign) and len(a_.targets) == 1 and src(a_.targets[0]) == base_it.id]
        if len(dd_) == 1:
            it = dd_[0]
    fr = [c for c in walk_no_nested(it) if isinstance(c, ast.Call) and dotted(c.func) == 'fill_range']
    ok = len(fr) == 1 and [_canon_cursor(src(a), outer, cur) for a in fr[0].args[:2]] == [cur, bl_start]
    # every way through one blacklist interval leaves `current` at the end of that interval (a bin count below zero cannot happen: it is a
    # len()); inside the bin loop `current` is at most advanced to the end of the bin just emitted
    from ..util import explore, mk_atoms
    rs = [r for r in explore(outer.body, mk_atoms({'total_bins < 0': False, '0 <= total_bins': True}), names=(cur,)) if r['kind'] in ('fall', 'continue')]
    okc = bool(rs) and all(cur in r['env'] and src(r['env'][cur]) == bl_end for r in rs)
    inner_upd = [s_ for s_ in walk_no_nested(inner) if isinstance(s_, (ast.Assign, ast.AugAssign)) and cur in {n.id for t in (s_.targets if isinstance(s_, ast.Assign) else [s_.target]) for n in ast.walk(t) if isinstance(n, ast.Name)}]
    okc = okc and all(isinstance(s_, ast.Assign) and src(s_.value) == pe for s_ in inner_upd)
    ctx.emit('C17-R2', ok and okc, BINCOUNTS, inner, f'bins tile the gap [{cur}, {bl_start}) and `{cur}` continues at the end of the blacklisted interval afterwards', key='bins-tile-gap')


def _subst(e, env):
    import copy

    class T(ast.NodeTransformer):
        def visit_Name(self, n):
            if n.id in env and isinstance(n.ctx, ast.Load):
                return copy.deepcopy(env[n.id])
            return n
    return T().visit(copy.deepcopy(e))


@rule('C17', 'C17-R3', 'no positional test against the length of a different enumeration decides the clamping (same-enumeration rule); the '
                       'equalised bin size is computed from the same gap the bins are generated for')
def r3(ctx):
    _tiling_model_or_structural(ctx, 'C17-R3', _r3_structural)


def _r3_structural(ctx):
    f, outer, inner = _binning_loops(ctx)
    fi = inner.target.elts[0].id if isinstance(inner.target, ast.Tuple) and isinstance(inner.target.elts[0], ast.Name) else None
    cmps = [c for c in walk_no_nested(inner) if isinstance(c, ast.Compare) and fi and fi in names_in(c)]
    bad = []
    for c in cmps:
        other = c.comparators[0] if src(c.left) == fi else c.left
        if isinstance(other, ast.Constant):
            continue
        # allowed only: len(list(<same iterable>)) - 1
        want = f'len(list({src(inner.iter.args[0]) if isinstance(inner.iter, ast.Call) and inner.iter.args else "?"})) - 1'
        defs = [s for s in walk_no_nested(f) if isinstance(s, ast.Assign) and src(s.targets[0]) in names_in(other)]
        txt = src(other)
        for d in defs:
            txt = txt.replace(src(d.targets[0]), '(' + src(d.value) + ')')
        if want.replace(' ', '') not in txt.replace(' ', ''):
            bad.append(src(c))
    ctx.emit('C17-R3', not bad, BINCOUNTS, inner, 'no enumerate-counter test against another enumeration\'s length' if not bad else
             f'positional tests {bad} compare the counter of the equalised-bin enumeration with the bin count of a different enumeration', key='same-enumeration')
    # local bin size
    # the defining assignments: the one computed from fill_range (a later `total_bins = 1` only guards the division) / the one that is not a
    # `None` sentinel
    alls = sorted([s_ for s_ in walk_no_nested(outer) if isinstance(s_, ast.Assign) and isinstance(s_.targets[0], ast.Name)], key=lambda s_: s_.lineno)
    tbs = [s_ for s_ in alls if src(s_.targets[0]) == 'total_bins' and not isinstance(s_.value, ast.Constant) and 'fill_range' in src(s_.value)]
    lbs = [s_ for s_ in alls if src(s_.targets[0]) == 'local_bin_size' and not (isinstance(s_.value, ast.Constant) and s_.value.value is None)]
    tb = tbs[0] if len(tbs) == 1 else None
    lb = lbs[0] if len(lbs) == 1 else None
    bl_start = _pair_target(outer)[0]
    cur = _cursor_name(f, outer)
    ok = tb is not None and lb is not None and f'fill_range({cur}, ' + bl_start + ', bin_size)' in _canon_cursor(src(tb.value), outer, cur) and \
        _canon_cursor(src(lb.value), outer, cur).replace(' ', '') in (f'int(({bl_start}-{cur})/total_bins)', f'({bl_start}-{cur})//total_bins')
    it_src = src(inner.iter)
    if isinstance(inner.iter, ast.Name):
        dd_ = [a_.value for a_ in walk_no_nested(outer) if isinstance(a_, ast.Assign) and len(a_.targets) == 1 and src(a_.targets[0]) == inner.iter.id]
        it_src = src(dd_[0]) if len(dd_) == 1 else it_src
    okuse = 'local_bin_size' in it_src
    ctx.emit('C17-R3', ok and okuse, BINCOUNTS, lb if lb is not None else outer, f'equalised bin size `{src(lb.value) if lb is not None else None}` with total_bins = `{src(tb.value) if tb is not None else None}` is used by the bin loop',
             key='local-bin-size')
    # interval analysis: the bin count is >= 1 wherever it divides (len() >= 0 refined by the guards / max() on the way)
    from ..util import interval_of_name_at

    def bounds(e, cur_iv=(None, None)):
        if isinstance(e, ast.Constant) and isinstance(e.value, int):
            return (e.value, e.value)
        if isinstance(e, ast.Name) and e.id == 'total_bins':
            return cur_iv
        if isinstance(e, ast.Call) and dotted(e.func) == 'len':
            return (0, None)
        if isinstance(e, ast.Call) and dotted(e.func) == 'max' and e.args and not e.keywords:
            bs = [bounds(a_, cur_iv) for a_ in e.args]
            los = [b_[0] for b_ in bs if b_[0] is not None]
            return (max(los) if los else None, None if any(b_[1] is None for b_ in bs) else max(b_[1] for b_ in bs))
        return (None, None)
    ivs = interval_of_name_at(outer.body, 'total_bins', lb, bounds) if lb is not None else []
    okz = bool(ivs) and all(lo is not None and lo >= 1 for lo, hi in ivs)
    ctx.emit('C17-R3', okz, BINCOUNTS, lb if lb is not None else outer, f'the bin count is >= 1 where it divides the gap (intervals {ivs})', key='zero-bins-guard', nontrivial=False)


@rule('C17', 'C17-R4', 'fill_range emits full steps while they fit and a final partial step up to the end')
def r4(ctx):
    _tiling_model_or_structural(ctx, 'C17-R4', _r4_structural)


def _r4_structural(ctx):
    f = ctx.fn(BINCOUNTS, 'fill_range')
    a_start, a_end, a_step = [a.arg for a in f.args.args]
    loops = [l for l in f.body if isinstance(l, ast.For)]
    ok_loop = len(loops) == 1 and src(loops[0].iter) == f'range({a_start}, {a_end}, {a_step})'
    tail = [s for s in f.body if isinstance(s, ast.If) and any(isinstance(x, ast.Yield) for b in s.body for x in walk_no_nested(b))]
    okt = False
    detail = 'no tail step'
    ev = None      # the local holding the end of the last complete step (whatever it is called)
    if len(tail) == 1 and f.body.index(tail[0]) > f.body.index(loops[0]) if loops else False:
        t = tail[0]
        yv = [x for b in t.body for x in walk_no_nested(b) if isinstance(x, ast.Yield)][0].value
        if isinstance(yv, ast.Tuple) and len(yv.elts) == 2 and isinstance(yv.elts[0], ast.Name) and src(yv.elts[1]) == a_end:
            ev = yv.elts[0].id
            okt = pred_is(t.test, lambda e: e['e'] < e['end'], {ev: 'e', a_end: 'end'})
        detail = f'tail `if {src(t.test)}: yield {src(yv)}`'
    ctx.emit('C17-R4', ok_loop and okt, BINCOUNTS, f, f'fill_range: {detail}' + ('' if ok_loop else '; main loop is not range(start, end, step)'), key='fill-range-tail')
    # in-loop: one inductive step, decided symbolically.  Invariant at the loop head: the local the tail starts from (e) equals the loop
    # variable s (e = start before the loop; s advances by step).  With d = s + step - end, every path through the body is followed on
    # linear forms; a comparison is decided from the sign of d (case "fits": d <= 0, case "over": d >= 1).  Required:
    #   fits: exactly one yield, of (s, s + step); e = s + step afterwards; no break      over: no yield; the loop is left with e = s
    if loops and ev is not None:
        l = loops[0]
        sv = l.target.id if isinstance(l.target, ast.Name) else None
        init = [s_ for s_ in f.body[:f.body.index(l)] if isinstance(s_, ast.Assign) and src(s_.targets[0]) == ev]
        ok_init = len(init) == 1 and src(init[0].value) == a_start
        cfg = CFG(l.body, exceptions=False)
        problems = []
        npaths = 0
        for case in ('fits', 'over'):
            def decide(test, env, case=case):
                if not (isinstance(test, ast.Compare) and len(test.ops) == 1 and isinstance(test.ops[0], (ast.Lt, ast.LtE, ast.Gt, ast.GtE))):
                    return UNK
                try:
                    diff = linform(test.left, env) - linform(test.comparators[0], env)
                except Exception:
                    return UNK
                # end := s + step - d
                c_end = diff.coef.get(a_end, 0)
                diff = diff - Lin({a_end: c_end}) + Lin({sv: c_end, a_step: c_end, 'd': -c_end})
                if set(diff.coef) - {'d'}:
                    return UNK
                c, k = diff.coef.get('d', 0), diff.const
                lo, hi = (None, k) if case == 'fits' and c > 0 else (k, None) if case == 'fits' and c < 0 else (c + k, None) if c > 0 else (None, c + k) if c < 0 else (k, k)
                op = type(test.ops[0])
                # diff in [lo, hi]; decide `diff op 0`
                if op is ast.Lt:
                    return True if hi is not None and hi < 0 else False if lo is not None and lo >= 0 else UNK
                if op is ast.LtE:
                    return True if hi is not None and hi <= 0 else False if lo is not None and lo > 0 else UNK
                if op is ast.Gt:
                    return True if lo is not None and lo > 0 else False if hi is not None and hi <= 0 else UNK
                return True if lo is not None and lo >= 0 else False if hi is not None and hi < 0 else UNK

            def step_fn(state, node, label, decide=decide):
                env, ys = state
                if node.kind == 'test' and label in ('true', 'false') and isinstance(node.ast, ast.If):
                    v = decide(node.ast.test, env)
                    if v is not UNK and bool(v) != (label == 'true'):
                        return None
                if node.kind == 'stmt' and isinstance(node.ast, ast.Assign) and len(node.ast.targets) == 1 and isinstance(node.ast.targets[0], ast.Name):
                    env = dict(env)
                    try:
                        env[node.ast.targets[0].id] = linform(node.ast.value, env)
                    except Exception:
                        env[node.ast.targets[0].id] = Lin({f'?{node.ast.lineno}': 1})
                if node.kind == 'stmt' and isinstance(node.ast, ast.AugAssign) and isinstance(node.ast.target, ast.Name) and isinstance(node.ast.op, (ast.Add, ast.Sub)):
                    env = dict(env)
                    cur = env.get(node.ast.target.id, Lin({node.ast.target.id: 1}))
                    dlt = linform(node.ast.value, env)
                    env[node.ast.target.id] = cur + dlt if isinstance(node.ast.op, ast.Add) else cur - dlt
                if node.kind == 'stmt' and isinstance(node.ast, ast.Expr) and isinstance(node.ast.value, ast.Yield):
                    yv_ = node.ast.value.value
                    ys = ys + ((tuple(str(linform(e_, env)) for e_ in yv_.elts) if isinstance(yv_, ast.Tuple) else ('?',)),)
                return (env, ys)
            for p_, (env, ys) in cfg.paths(state0=({ev: Lin({sv: 1})}, ()), step=step_fn):
                kind = cfg.nodes[p_[-1][0]].info
                npaths += 1
                e_after = env.get(ev)
                if case == 'fits':
                    want_y = ((str(Lin({sv: 1})), str(Lin({sv: 1, a_step: 1}))),)
                    if kind not in ('fall', 'continue') or ys != want_y or e_after != Lin({sv: 1, a_step: 1}):
                        problems.append(f'step fits (s + step <= end): leaves the body by {kind}, yields {list(ys)}, {ev} = {e_after}')
                else:
                    if kind != 'break' or ys or e_after != Lin({sv: 1}):
                        problems.append(f'step does not fit (s + step > end): leaves the body by {kind}, yields {list(ys)}, {ev} = {e_after} (expected: break, nothing yielded, {ev} = s)')
        ctx.counters['paths_enumerated'] += npaths
        ctx.emit('C17-R4', ok_init and not problems and npaths >= 2, BINCOUNTS, l, 'fill_range loop yields (s, s+step) only while s+step <= end and hands the remainder to the tail step' +
                 ('' if not problems else ': ' + problems[0]) + ('' if ok_init else f'; {ev} is not initialised to start'), key='fill-range-loop')
    elif loops:
        ctx.emit('C17-R4', False, BINCOUNTS, loops[0], 'fill_range: the tail step `yield <last end>, end` was not found, the loop cannot be related to it', key='fill-range-loop', undecided=True)


@rule('C17', 'C17-R5', 'bp_chunked puts every bin into exactly one chunk and emits the last chunk')
def r5(ctx):
    f = ctx.fn(BINNING, 'bp_chunked')
    loops = [l for l in f.body if isinstance(l, ast.For)]
    if len(loops) != 1 or not isinstance(loops[0].target, ast.Name):
        raise AnalysisError('bp_chunked: loop not found')
    l = loops[0]
    jv = l.target.id
    cfg = CFG(l.body, exceptions=False)
    acc = None
    bad = []
    for p, _ in cfg.paths():
        if cfg.nodes[p[-1][0]].info not in ('fall', 'continue'):
            continue
        apps = []
        flushed = reset = None
        for nid, lab in p:
            nn = cfg.nodes[nid]
            for c in node_calls(nn):
                if isinstance(c.func, ast.Attribute) and c.func.attr == 'append' and c.args and src(c.args[0]) == jv:
                    apps.append(src(c.func.value))
            if nn.kind == 'stmt' and isinstance(nn.ast, ast.Expr) and isinstance(nn.ast.value, ast.Yield):
                flushed = src(nn.ast.value.value)
            if nn.kind == 'stmt' and isinstance(nn.ast, ast.Assign) and isinstance(nn.ast.value, ast.List) and not nn.ast.value.elts:
                reset = src(nn.ast.targets[0])
        if len(apps) != 1:
            bad.append(f'bin appended {len(apps)} times on a path')
        else:
            acc = apps[0]
            if flushed is not None and (flushed != acc or reset != acc):
                bad.append(f'chunk `{flushed}` yielded but `{reset}` reset')
            if flushed is not None:
                order = [cfg.nodes[nid].lineno for nid, _l in p if cfg.nodes[nid].kind == 'stmt' and isinstance(cfg.nodes[nid].ast, ast.Expr) and
                         (isinstance(cfg.nodes[nid].ast.value, ast.Yield) or any(isinstance(c.func, ast.Attribute) and c.func.attr == 'append' for c in node_calls(cfg.nodes[nid])))]
                if order != sorted(order):
                    bad.append('chunk yielded before the current bin is appended')
    after = f.body[f.body.index(l) + 1:]
    fin = [s for s in after if isinstance(s, ast.Expr) and isinstance(s.value, ast.Yield) and acc and src(s.value.value) == acc]
    if not fin:
        bad.append('the last (partial) chunk is never yielded')
    ctx.emit('C17-R5', not bad, BINNING, l, 'bp_chunked: ' + ('every bin is appended once, chunks are yielded then reset, the remainder is yielded after the loop' if not bad else '; '.join(sorted(set(bad)))), key='chunk-once')
    sz = [s for s in l.body if isinstance(s, ast.AugAssign) and 'abs(' in src(s.value)]
    ctx.emit('C17-R5', bool(sz), BINNING, l, 'chunk size accumulates the bin length', key='chunk-size', nontrivial=False)


def bin_source(ctx, rid):
    """the bins of a gap [current, start) come from fill_range(current, start, local_bin_size) - full steps plus the remainder step - so the
    last bin ends at the gap end.  A fixed number of equal steps (`for k in range(count): lo = gap_start + k * size`) with size = floor(gap /
    count) stops short of the gap end whenever the gap is not a multiple of count, unless a tail step is emitted after the loop."""
    f = ctx.fn(BINCOUNTS, FN)
    outer = [l for l in f.body if isinstance(l, ast.For)]
    if len(outer) != 1:
        raise AnalysisError('blacklisted_binning: outer loop not found')
    frl = _fill_range_loops(outer[0])
    inner_fr = [l for l, nm in frl]
    ys = [y for y in walk_no_nested(outer[0]) if isinstance(y, ast.Yield)]
    for l, nm in frl:
        if nm is None:
            continue
        # the steps were put into a local first: they must reach the loop as fill_range laid them out
        edits = [x for x in walk_no_nested(outer[0]) if
                 (isinstance(x, (ast.Assign, ast.AugAssign)) and any(isinstance(t, ast.Subscript) and src(t.value) == nm for t in (x.targets if isinstance(x, ast.Assign) else [x.target])))
                 or (isinstance(x, ast.AugAssign) and src(x.target) == nm)
                 or (isinstance(x, ast.Delete) and any(isinstance(t, ast.Subscript) and src(t.value) == nm for t in x.targets))
                 or (isinstance(x, ast.Call) and isinstance(x.func, ast.Attribute) and src(x.func.value) == nm and x.func.attr in ('pop', 'append', 'extend', 'insert', 'remove', 'sort', 'reverse', 'clear'))]
        if edits:
            ctx.emit(rid, False, BINCOUNTS, edits[0], f'the steps of fill_range are edited before they become bins: `{src(edits[0])[:70]}` - a bin built by joining steps is larger than the step '
                     f'(bins larger than the requested bin size), a dropped step leaves bases without a bin', key='bins-from-fill-range', what='blacklisted_binning: bins are not the steps of fill_range')
            return
    if inner_fr:
        inside = all(any(y is x for l in inner_fr for x in walk_no_nested(l)) for y in ys)
        ctx.emit(rid, inside, BINCOUNTS, inner_fr[0], 'bins are the steps of fill_range over the gap (remainder step included)' if inside else
                 'some bins are yielded outside the fill_range loop', key='bins-from-fill-range', nontrivial=False)
        return
    counted = [l for l in walk_no_nested(outer[0]) if isinstance(l, ast.For) and l is not outer[0] and isinstance(l.iter, ast.Call) and dotted(l.iter.func) == 'range'
               and any(isinstance(y, ast.Yield) for y in walk_no_nested(l))]
    if not counted:
        ctx.emit(rid, False, BINCOUNTS, outer[0], 'how the bins of a gap are laid out was not recognised', key='bins-from-fill-range', undecided=True)
        return
    l = counted[0]
    body_after = outer[0].body
    tail = [y for y in ys if not any(y is x for x in walk_no_nested(l))]
    step_names = {n_ for y in walk_no_nested(l) if isinstance(y, ast.Yield) for n_ in names_in(y)}
    floor_sized = any(isinstance(s_, ast.Assign) and isinstance(s_.value, (ast.Call, ast.BinOp)) and ('int(' in src(s_.value) or '//' in src(s_.value)) and '/' in src(s_.value)
                      for s_ in walk_no_nested(outer[0]) if isinstance(s_, ast.Assign))
    ok = bool(tail) or not floor_sized
    ctx.emit(rid, ok, BINCOUNTS, l, 'bins are laid out by a counted loop with a tail step' if ok else
             f'bins are laid out as `{src(l.iter)}` equal steps of floor(gap / count) with no remainder step: when the gap is not a multiple of the count its last bases belong to no bin '
             '(molecules with a site there are written by no job)', key='bins-from-fill-range', undecided=ok and not tail,
             what='blacklisted_binning: the bins of a gap do not reach the gap end')


@rule('C17', 'C17-R6', 'the bins of a gap reach the gap end: they are the steps of fill_range (full steps plus the remainder step)')
def r6(ctx):
    _tiling_model_or_structural(ctx, 'C17-R6', _r6_structural)


def _r6_structural(ctx):
    bin_source(ctx, 'C17-R6')


@rule('C17', 'C17-R7', 'every contig is tiled around ITS blacklist: the `blacklist` handed to blacklisted_binning inside the contig loop is computed from the loop\'s contig '
                       'in every iteration - a local that is only re-assigned for contigs present in the blacklist keeps the intervals of an earlier contig')
def r7(ctx):
    from ..util import explore, mk_atoms
    f = ctx.fn(BINCOUNTS, 'blacklisted_binning_contigs')
    loops = [l for l in walk_no_nested(f) if isinstance(l, ast.For) and any(isinstance(c, ast.Call) and dotted(c.func) == FN for c in ast.walk(l))]
    loops = [l for l in loops if not any(o is not l and any(x is l for x in ast.walk(o)) for o in loops)]       # the outermost one: over the contigs
    if len(loops) != 1:
        raise AnalysisError('blacklisted_binning_contigs: contig loop not found')
    l = loops[0]
    cv = l.target.elts[0].id if isinstance(l.target, ast.Tuple) and isinstance(l.target.elts[0], ast.Name) else (l.target.id if isinstance(l.target, ast.Name) else None)
    calls = [c for c in walk_no_nested(l) if isinstance(c, ast.Call) and dotted(c.func) == FN]
    ctx.need('C17-R7', len(calls), 1, 'blacklisted_binning calls in the contig loop')
    for c in calls:
        from ..util import call_kwargs
        kw_ = call_kwargs(f, c)
        bl = ([kw_['blacklist']] if 'blacklist' in kw_ else []) or c.args[3:4]
        if not bl:
            ctx.emit('C17-R7', False, BINCOUNTS, c, 'blacklisted_binning is called without a blacklist', key='per-contig-blacklist', undecided=True)
            continue
        e = bl[0]
        if cv in names_in(e):
            ctx.emit('C17-R7', True, BINCOUNTS, c, f'blacklist `{src(e)[:60]}` is looked up with the contig of the iteration', key='per-contig-blacklist')
            continue
        if not isinstance(e, ast.Name):
            ctx.emit('C17-R7', False, BINCOUNTS, c, f'blacklist `{src(e)[:60]}` does not depend on the contig of the iteration', key='per-contig-blacklist', undecided=True)
            continue
        inloop = [a for a in walk_no_nested(l) if isinstance(a, ast.Assign) and any(isinstance(t, ast.Name) and t.id == e.id for t in a.targets)]
        if not inloop or not any(cv in names_in(a.value) for a in inloop):
            ctx.emit('C17-R7', False, BINCOUNTS, c, f'blacklist `{e.id}` is not computed from the contig inside the loop', key='per-contig-blacklist', undecided=True)
            continue
        # is there a way through one iteration that reaches the call without assigning it?
        stale = [r for r in explore(l.body, mk_atoms({}), names={e.id}, upto=c) if r['kind'] == 'upto' and e.id not in r['env']]
        ctx.emit('C17-R7', not stale, BINCOUNTS, c, f'blacklist `{e.id}` is assigned from the contig on every way to the call' if not stale else
                 f'blacklist `{e.id}` is only assigned under a condition (`{src(inloop[0])[:50]}`): for a contig that takes the other branch the call sees the intervals of an EARLIER contig - '
                 f'that contig is tiled around phantom intervals', key='per-contig-blacklist', what='blacklisted_binning_contigs: blacklist of a previous contig re-used')


@rule('C17', 'C17-R8', 'every blacklisted interval of the BED file takes part in the tiling: the loader groups ALL records of a contig (in file order), also when the records of a '
                       'contig are not adjacent in the file - evaluated on record lists with re-appearing contigs')
def r8(ctx):
    import itertools
    from ..consteval import run_function, Raised, Unfoldable
    f = ctx.fn(BINCOUNTS, 'get_bins_from_bed_dict')
    n, bad = 0, None
    try:
        for contigs in itertools.product('ab', repeat=4):
            for k in range(0, 5):
                recs = [(c, 10 * i, 10 * i + 5) for i, c in enumerate(contigs[:k])]

                def hook(ev, call, env, recs=recs):
                    d = dotted(call.func) or ''
                    if d.endswith('get_bins_from_bed_iter'):
                        return iter(list(recs))
                    return NotImplemented
                n += 1
                got = run_function(f, ['<path>'], env={}, call_hook=hook, budget=20000)
                want = {}
                for c, s_, e_ in recs:
                    want.setdefault(c, []).append((s_, e_))
                got = {k_: [tuple(x) for x in v_] for k_, v_ in dict(got).items()}
                if got != want and bad is None:
                    bad = {'BED records': recs, 'loaded': got, 'expected': want}
    except (Unfoldable, Raised, Exception) as e_:
        ctx.emit('C17-R8', False, BINCOUNTS, f, f'get_bins_from_bed_dict is outside the interpreted subset ({type(e_).__name__}: {str(e_)[:80]})', key='blacklist-loader-complete', undecided=True)
        return
    # the reader itself: plain and gzip-compressed BED files give the same (contig, start, end) records - contig names as text, so that they are the keys
    # the per-contig lookup uses (a file opened in binary mode yields bytes names, which match no contig: the blacklist is silently ignored)
    g = ctx.fn(BINCOUNTS, 'get_bins_from_bed_iter')
    lines = ['chr1\t5\t9\n', 'chr2\t0\t3\n', 'chr1\t20\t25\textra\n']
    want_recs = [('chr1', 5, 9), ('chr2', 0, 3), ('chr1', 20, 25)]
    rbad = None
    try:
        for path in ('black.bed', 'black.bed.gz'):
            def fhook(ev, call, env):
                d = dotted(call.func) or ''
                if d in ('gzip.open', 'open'):
                    a = [ev.ev(x, env) for x in call.args]
                    kw = {k.arg: ev.ev(k.value, env) for k in call.keywords if k.arg}
                    mode = a[1] if len(a) > 1 else kw.get('mode', 'rb' if d == 'gzip.open' else 'r')
                    text = 't' in mode or (d == 'open' and 'b' not in mode)
                    return [l_ if text else l_.encode() for l_ in lines]
                return NotImplemented
            from ..consteval import ExternalRef
            got = [tuple(x) for x in run_function(g, [path], env={'gzip.open': ExternalRef('gzip.open'), 'open': ExternalRef('open')}, call_hook=fhook, budget=20000)]
            n += 1
            if got != want_recs and rbad is None:
                rbad = {'file': path, 'records read': got, 'expected': want_recs}
    except (Unfoldable, Raised, Exception) as e_:
        ctx.emit('C17-R8', False, BINCOUNTS, g, f'get_bins_from_bed_iter is outside the interpreted subset ({type(e_).__name__}: {str(e_)[:80]})', key='blacklist-reader-text', undecided=True)
        rbad = 'undecided'
    if rbad != 'undecided':
        ctx.emit('C17-R8', rbad is None, BINCOUNTS, g, 'get_bins_from_bed_iter reads plain and gzip-compressed BED files to the same text records' if rbad is None else
                 f'get_bins_from_bed_iter: {rbad} - contig names read as bytes match no contig, the blacklist of a compressed BED file is silently ignored and the bins cover blacklisted bases',
                 key='blacklist-reader-text', witness=rbad, what='get_bins_from_bed_iter: a gzip-compressed blacklist is read in binary mode and never matches a contig')
    ctx.counters['interpreted_cases'] = ctx.counters.get('interpreted_cases', 0) + n
    ctx.emit('C17-R8', bad is None, BINCOUNTS, f, f'get_bins_from_bed_dict on {n} record lists: every record ends up under its contig, in file order' if bad is None else
             f'get_bins_from_bed_dict loses blacklisted intervals: {bad} - the tiler then emits bins over blacklisted bases', key='blacklist-loader-complete', witness=bad,
             what='get_bins_from_bed_dict: blacklist intervals of a contig that re-appears later in the BED file are dropped')


@rule('C17', 'C17-R9', 'the tiling property itself on every small tiling problem, evaluated by the abstract interpreter on the code as it is: bins non-empty and no larger than requested, bins and '
                       'blacklisted bases cover the region exactly once, fetch windows contain their bin, extend by at most the fragment size, stay inside the region and off the blacklist')
def r9(ctx):
    f = ctx.fn(BINCOUNTS, 'blacklisted_binning')
    m = tiling_model(ctx)
    if m is None:
        ctx.emit('C17-R9', True, BINCOUNTS, f, 'blacklisted_binning uses constructs outside the interpreted subset: decided by the structural rules only', key='tiling-model', nontrivial=False)
        return
    ok, n, wit = m
    ctx.counters['interpreted_cases'] += n
    ctx.emit('C17-R9', ok, BINCOUNTS, f, f'{n} tiling problems (region x bin size x blacklist x fragment size): the tiling is an exact partition with contained fetch windows' if ok else f'tiling problem {wit}',
             key='tiling-model', witness=wit, what='blacklisted_binning: ' + (str(wit.get('problem')) if wit else ''))
    # the per-contig wrapper: contigs shorter than, equal to and longer than the bin size, with and without blacklist entries, with and without a whitelist
    g = ctx.fn(BINCOUNTS, 'blacklisted_binning_contigs')
    try:
        import itertools
        from ..consteval import run_function, module_scope, Unfoldable, Raised
        env = module_scope(ctx.ix, BINCOUNTS)
        sizes = [('c1', 9), ('c2', 3), ('c3', 5), ('c4', 2)]
        black = {'c1': [(2, 4)], 'c2': [(1, 2)], 'c3': [(0, 1), (4, 5)]}

        def hook(ev, call, env_):
            if (dotted(call.func) or '').split('.')[-1] == 'get_bins_from_bed_dict':
                return {k_: list(v_) for k_, v_ in black.items()}
            return NotImplemented
        bad, nc = None, 0
        for bs, F, wl in itertools.product((5, 2, 20), (None, 1), (None, ['c1', 'c2', 'c4'])):
            nc += 1
            got = [tuple(t_) for t_ in run_function(g, [list(sizes), bs, F], {'blacklist_path': 'black.bed', 'contig_whitelist': wl}, env=env, call_hook=hook, budget=200000)]
            for c_, ln in sizes:
                mine = [t_ for t_ in got if t_[0] == c_]
                if wl is not None and c_ not in wl:
                    if mine and bad is None:
                        bad = {'bin size': bs, 'fragment size': F, 'whitelist': wl, 'problem': f'contig {c_} is not in the whitelist but gets bins {mine[:2]}'}
                    continue
                B = {x for a_, b_ in black.get(c_, []) for x in range(a_, b_)}
                cover = [x for t_ in mine for x in range(t_[1], t_[2])]
                problem = None
                if sorted(cover + sorted(B)) != list(range(0, ln)):
                    problem = f'contig {c_} (length {ln}, blacklist {black.get(c_, [])}): bins {[t_[1:3] for t_ in mine]} and the blacklist do not cover it exactly once'
                elif any(t_[2] - t_[1] > bs for t_ in mine):
                    problem = f'contig {c_}: a bin of {[t_[1:3] for t_ in mine]} is larger than the bin size {bs}'
                elif F is not None and any(len(t_) != 5 or set(range(t_[3], t_[4])) & B or t_[3] > t_[1] or t_[4] < t_[2] for t_ in mine):
                    problem = f'contig {c_}: a fetch window of {mine} does not contain its bin or reaches into the blacklist'
                if problem and bad is None:
                    bad = {'bin size': bs, 'fragment size': F, 'whitelist': wl, 'problem': problem}
        ctx.counters['interpreted_cases'] += nc * len(sizes)
        ctx.emit('C17-R9', bad is None, BINCOUNTS, g, f'blacklisted_binning_contigs on {len(sizes)} model contigs x {nc} settings: every contig of the whitelist is tiled exactly, off its blacklist' if bad is None else
                 f'blacklisted_binning_contigs on model contigs: {bad}', key='tiling-model:contigs', witness=bad, what='blacklisted_binning_contigs: ' + (bad or {}).get('problem', ''))
    except (Unfoldable, Raised, Exception) as e_:
        ctx.emit('C17-R9', True, BINCOUNTS, g, f'blacklisted_binning_contigs is outside the interpreted subset ({type(e_).__name__}): decided by the structural rules only', key='tiling-model:contigs', nontrivial=False)


META = {
    'text': ('Decides: the overlap test used to trim the blacklist equals true half-open interval overlap on every ordering of (s,e,start,end) '
             '(all Allen relations), trimmed ranges are clamped to the region on both sides, overlapping ranges are merged to their union; the fetch '
             'window of every bin equals (max(gap start, bin start - F), min(gap end, bin end + F)) on every ordering (contains the bin, at most F, '
             'never outside the gap), with the gap start proven equal to `current` at bin-loop entry on all paths by value numbering; no positional '
             'test against a foreign enumeration; fill_range emits the final partial step; bp_chunked places every bin in exactly one chunk. Does NOT '
             'decide the exact-partition arithmetic for all (region, bin, blacklist) numbers.'),
    'technique': 'static analysis: exhaustive ordering enumeration of interval predicates and clamp expressions, must-equality by value numbering along CFG paths, exactly-once path checks; small-scope abstract execution of merge_overlapping_ranges (every list of <= 3 ranges over 0..5) where the structural reading cannot decide; small-scope evaluation of the tiling property itself (exact partition, bin size, contained fetch windows) on every small tiling problem (rule R9), interpretation of the BED loader',
    'design_ref': 'DESIGN.md section 5, C17',
}


from . import shared as _shared
_shared.register('C17', 'C17')
