"""C13 - molecule consensus is the strict majority call and never reports a tie (clause-level structural checks)."""
import ast
import itertools

from ..core import rule
from ..index import AnalysisError, dotted, src, walk_no_nested, names_in
from ..cfg import CFG, OTHER
from ..consteval import run_function, Unfoldable
from ..util import node_calls, own_expr, explore, mk_atoms, last_name, dict_emission, reach_expr
from .slots import MOLECULE, SEQUTILS, FRAGMENT

FN = 'Molecule.get_consensus'


class RowEval:
    """Evaluates the numpy row-wise idioms used for the tie mask on ONE abstract row of vote counts.
    Arrays over rows are represented by their value for the row: the matrix `v` by the row (a tuple), per-row vectors by a scalar."""

    def __init__(self, row, env, row_exprs=()):
        self.row = row
        self.env = env      # name -> AST expression (local definitions)
        self.row_exprs = row_exprs      # source texts that denote the vote row of the position under decision

    def ev(self, e, depth=0):
        if depth > 40:
            raise Unfoldable('depth')
        if isinstance(e, ast.Constant):
            return e.value
        if src(e) in self.row_exprs:
            return self.row
        if isinstance(e, ast.UnaryOp) and isinstance(e.op, ast.Not):
            return not self.ev(e.operand, depth + 1)
        if isinstance(e, ast.BoolOp):
            vals = [self.ev(x, depth + 1) for x in e.values]
            return all(vals) if isinstance(e.op, ast.And) else any(vals)
        if isinstance(e, ast.Call) and isinstance(e.func, ast.Name) and e.func.id in ('int', 'bool') and len(e.args) == 1:
            return {'int': int, 'bool': bool}[e.func.id](self.ev(e.args[0], depth + 1))
        if isinstance(e, ast.Call) and isinstance(e.func, ast.Name) and e.func.id in ('max', 'min', 'sum', 'len') and len(e.args) == 1 and not e.keywords:
            base = self.ev(e.args[0], depth + 1)
            if isinstance(base, tuple):
                return {'max': max, 'min': min, 'sum': sum, 'len': len}[e.func.id](base)
        if isinstance(e, ast.Name):
            if e.id == 'v':
                return self.row
            if e.id in self.env:
                return self.ev(self.env[e.id], depth + 1)
            raise Unfoldable(e.id)
        if isinstance(e, ast.Attribute) and src(e) in ('np.newaxis',):
            return None
        if isinstance(e, ast.Subscript):
            base = self.ev(e.value, depth + 1)
            sl = e.slice
            if isinstance(sl, ast.Tuple) and len(sl.elts) == 2:
                a, b = sl.elts
                # X[:, np.newaxis] -> X ; v[np.arange(n), idx] -> row[idx]
                if isinstance(a, ast.Slice) and src(b) in ('np.newaxis', 'None'):
                    return base
                if 'arange' in src(a):
                    idx = self.ev(b, depth + 1)
                    return base[idx]
            if isinstance(base, tuple) and not isinstance(sl, (ast.Tuple, ast.Slice)):
                idx = self.ev(sl, depth + 1)
                if isinstance(idx, int) and not isinstance(idx, bool):
                    return base[idx]
            raise Unfoldable('subscript ' + src(e))
        if isinstance(e, ast.Compare) and len(e.ops) == 1:
            l, r = self.ev(e.left, depth + 1), self.ev(e.comparators[0], depth + 1)
            f = {ast.Eq: lambda a, b: a == b, ast.NotEq: lambda a, b: a != b, ast.Gt: lambda a, b: a > b, ast.GtE: lambda a, b: a >= b,
                 ast.Lt: lambda a, b: a < b, ast.LtE: lambda a, b: a <= b}[type(e.ops[0])]
            if isinstance(l, tuple) and not isinstance(r, tuple):
                return tuple(f(x, r) for x in l)
            if isinstance(r, tuple) and not isinstance(l, tuple):
                return tuple(f(l, x) for x in r)
            if isinstance(l, tuple) and isinstance(r, tuple):
                return tuple(f(x, y) for x, y in zip(l, r))
            return f(l, r)
        if isinstance(e, ast.BinOp):
            l, r = self.ev(e.left, depth + 1), self.ev(e.right, depth + 1)
            f = {ast.Add: lambda a, b: a + b, ast.Sub: lambda a, b: a - b, ast.Mult: lambda a, b: a * b, ast.Div: lambda a, b: a / b,
                 ast.BitAnd: lambda a, b: a and b, ast.BitOr: lambda a, b: a or b}.get(type(e.op))
            if f is None:
                raise Unfoldable('binop')
            if isinstance(l, tuple) or isinstance(r, tuple):
                lt = l if isinstance(l, tuple) else (l,) * len(r)
                rt = r if isinstance(r, tuple) else (r,) * len(l)
                return tuple(f(x, y) for x, y in zip(lt, rt))
            return f(l, r)
        if isinstance(e, ast.Call):
            d = dotted(e.func) or ''
            axis1 = (len(e.args) >= 1 and src(e.args[-1]) == '1') or any(k.arg == 'axis' and src(k.value) == '1' for k in e.keywords)
            if isinstance(e.func, ast.Attribute) and e.func.attr in ('sum', 'max', 'min', 'argmax') and not d.startswith('np.'):
                base = self.ev(e.func.value, depth + 1)
                if not isinstance(base, tuple):
                    raise Unfoldable('reduce on scalar')
                return {'sum': sum, 'max': max, 'min': min, 'argmax': lambda t: t.index(max(t))}[e.func.attr](base)
            if d in ('np.sum', 'np.max', 'np.amax', 'np.min', 'np.argmax') and e.args:
                base = self.ev(e.args[0], depth + 1)
                if not isinstance(base, tuple):
                    raise Unfoldable('reduce on scalar')
                return {'np.sum': sum, 'np.max': max, 'np.amax': max, 'np.min': min, 'np.argmax': lambda t: t.index(max(t))}[d](base)
        raise Unfoldable(src(e)[:40])


def _keys_of(f, e, tally, depth=0):
    """e enumerates exactly the keys of the tally (re-ordering wrappers only)"""
    if depth > 5:
        return False
    if isinstance(e, ast.Name):
        if e.id == tally:
            return True
        dd = [s_.value for s_ in walk_no_nested(f) if isinstance(s_, ast.Assign) and len(s_.targets) == 1 and src(s_.targets[0]) == e.id]
        return len(dd) == 1 and _keys_of(f, dd[0], tally, depth + 1)
    if isinstance(e, ast.Call) and isinstance(e.func, ast.Attribute) and e.func.attr == 'keys' and not e.args:
        return _keys_of(f, e.func.value, tally, depth + 1)
    if isinstance(e, ast.Call) and last_name(dotted(e.func) or '') in ('sorted', 'list', 'tuple', 'iter') and e.args and not e.keywords:
        return _keys_of(f, e.args[0], tally, depth + 1)
    return False


def _r1_scalar(ctx, f):
    """the majority step written as a loop over the tallied positions: `for L in <keys of tally>: ...; D[L] = 'ACGTN'[W]`.  The reach condition of
    the store inside one iteration is the tie mask, W the called base; both are evaluated on every abstract vote row.  Returns False when the
    function does not have this shape (the caller then reports the vectorised anchors as missing)."""
    tallies = {t.target.value.value.id for t in walk_no_nested(f) if isinstance(t, ast.AugAssign) and isinstance(t.target, ast.Subscript)
               and isinstance(t.target.value, ast.Subscript) and isinstance(t.target.value.value, ast.Name)}
    loops = []
    for l in walk_no_nested(f):
        if not isinstance(l, ast.For) or l.orelse:
            continue
        for tally in tallies:
            it = l.iter
            row_name = None
            if isinstance(l.target, ast.Name) and _keys_of(f, it, tally):
                loops.append((l, tally, l.target.id, None))
            elif isinstance(l.target, ast.Tuple) and len(l.target.elts) == 2 and all(isinstance(e_, ast.Name) for e_ in l.target.elts):
                inner = it
                while isinstance(inner, ast.Call) and last_name(dotted(inner.func) or '') in ('sorted', 'list', 'tuple', 'iter') and len(inner.args) == 1 and not inner.keywords:
                    inner = inner.args[0]
                if isinstance(inner, ast.Call) and isinstance(inner.func, ast.Attribute) and inner.func.attr == 'items' and src(inner.func.value) == tally:
                    loops.append((l, tally, l.target.elts[0].id, l.target.elts[1].id))
    cands = []
    for l, tally, loc, rowname in loops:
        stores = [a for a in walk_no_nested(l) if isinstance(a, ast.Assign) and len(a.targets) == 1 and isinstance(a.targets[0], ast.Subscript)
                  and isinstance(a.targets[0].value, ast.Name) and src(a.targets[0].slice) == loc]
        if len(stores) == 1:
            cands.append((l, tally, loc, rowname, stores[0]))
    if not cands:
        # the same loop as a dictionary comprehension: D = {L: 'ACGTN'[W] for L in <keys of tally> if <tie guard>}
        for a in walk_no_nested(f):
            if isinstance(a, ast.Assign) and len(a.targets) == 1 and isinstance(a.targets[0], ast.Name) and isinstance(a.value, ast.DictComp) and len(a.value.generators) == 1:
                g = a.value.generators[0]
                for tally in tallies:
                    if isinstance(g.target, ast.Name) and src(a.value.key) == g.target.id and _keys_of(f, g.iter, tally):
                        cands.append((a, tally, g.target.id, None, None))
                    elif isinstance(g.target, ast.Tuple) and all(isinstance(e_, ast.Name) for e_ in g.target.elts) and isinstance(g.iter, ast.Call) and dotted(g.iter.func) == 'zip' \
                            and len(g.iter.args) == len(g.target.elts) and src(a.value.key) == g.target.elts[0].id and _keys_of(f, g.iter.args[0], tally):
                        # {L: base[i] for L, i, keep in zip(<keys>, <per-row index array>, <per-row mask>) if keep}: the zipped arrays are per-row values
                        cands.append((a, tally, g.target.elts[0].id, None, 'zip'))
        if len(cands) != 1:
            return False
        a, tally, loc, rowname, _ = cands[0]
        D = a.targets[0].id
        g = a.value.generators[0]
        rets = [r for r in walk_no_nested(f) if isinstance(r, ast.Return) and r.value is not None and D in names_in(r.value)]
        if not rets:
            return False
        other = [x for x in walk_no_nested(f) if x is not a and ((isinstance(x, (ast.Assign, ast.AugAssign)) and any(src(t_) == D or (isinstance(t_, ast.Subscript) and src(t_.value) == D) for t_ in (x.targets if isinstance(x, ast.Assign) else [x.target])))
                                                                 or (isinstance(x, ast.Call) and isinstance(x.func, ast.Attribute) and src(x.func.value) == D and x.func.attr in ('update', 'setdefault', 'pop', '__setitem__')))]
        cond = ast.Constant(value=True) if not g.ifs else g.ifs[0] if len(g.ifs) == 1 else ast.BoolOp(op=ast.And(), values=list(g.ifs))
        env_ = {}
        keys_src = src(g.iter)
        extra_rows = set()
        if _ == 'zip':
            fdefs = {}
            for a_ in walk_no_nested(f):
                if isinstance(a_, ast.Assign) and len(a_.targets) == 1 and isinstance(a_.targets[0], ast.Name):
                    fdefs.setdefault(a_.targets[0].id, []).append(a_.value)
            for nm_, arr in zip([e_.id for e_ in g.target.elts[1:]], g.iter.args[1:]):
                env_[nm_] = arr
            # locals the arrays are computed from; the stacked vote matrix stands for the row of the position
            for k_, v_ in fdefs.items():
                if len(v_) == 1:
                    if 'vstack' in src(v_[0]) and f'{tally}[' in src(v_[0]):
                        extra_rows.add(k_)
                    else:
                        env_.setdefault(k_, v_[0])
            keys_src = src(g.iter.args[0])
        return _r1_scalar_decide(ctx, f, a, tally, loc, rowname, D, rets, not other, [src(x)[:40] for x in other], cond, a.value.value, env_, keys_src, extra_rows)
    if len(cands) != 1:
        return False
    l, tally, loc, rowname, store = cands[0]
    D = store.targets[0].value.id
    rets_all = [r for r in walk_no_nested(f) if isinstance(r, ast.Return) and r.value is not None]
    rets = [r for r in rets_all if D in names_in(r.value)]
    if not rets:
        return False
    # D is the consensus: created empty, filled only by that store
    other = [a for a in walk_no_nested(f) if a is not store and ((isinstance(a, (ast.Assign, ast.AugAssign)) and any(isinstance(t_, ast.Subscript) and src(t_.value) == D for t_ in (a.targets if isinstance(a, ast.Assign) else [a.target])))
                                                               or (isinstance(a, ast.Call) and isinstance(a.func, ast.Attribute) and src(a.func.value) == D and a.func.attr in ('update', 'setdefault', 'pop', '__setitem__')))]
    inits = [a for a in walk_no_nested(f) if isinstance(a, ast.Assign) and len(a.targets) == 1 and src(a.targets[0]) == D]
    empty = len(inits) == 1 and src(inits[0].value).replace(' ', '') in ('dict()', '{}')
    ok = empty and not other
    env = {}
    for a in walk_no_nested(l):
        if isinstance(a, ast.Assign) and len(a.targets) == 1 and isinstance(a.targets[0], ast.Name):
            env[a.targets[0].id] = a.value if a.targets[0].id not in env else None
    env = {k: v for k, v in env.items() if v is not None}
    return _r1_scalar_decide(ctx, f, store, tally, loc, rowname, D, rets, ok, [src(a)[:40] for a in other] + [f'initialised by {src(a.value)[:30]}' for a in inits if not empty],
                             reach_expr(l.body, store), store.value, env, src(l.iter))


def _r1_scalar_decide(ctx, f, store, tally, loc, rowname, D, rets, ok, other, cond, base, env, keys_src, extra_rows=()):
    ctx.emit('C13-R1', ok, MOLECULE, rets[0], f'the consensus `{D}` starts empty and receives a base only through `{src(store)[:60]}` per tallied position' if ok else
             f'the consensus `{D}` is also filled outside the tie-guarded store ({other})', key='mask-applied',
             what='get_consensus: positions / bases are returned without the tie mask')
    ctx.emit('C13-R1', True, MOLECULE, store, f'votes of one position are the row `{tally}[{loc}]`', key='vote-matrix', nontrivial=False)
    ctx.emit('C13-R1', True, MOLECULE, store, f'the decided positions are all keys of the tally `{tally}` (`{keys_src[:60]}`)', key='all-tallied-positions',
             what='get_consensus: tallied positions are dropped before the majority decision')
    row_exprs = {f'{tally}[{loc}]'} | ({rowname} if rowname else set()) | set(extra_rows)
    idx = base.slice if isinstance(base, ast.Subscript) and isinstance(base.value, ast.Constant) and base.value.value == 'ACGTN' else None
    if cond is None or idx is None:
        ctx.emit('C13-R1', False, MOLECULE, store, f'stored base `{src(base)[:60]}` is not an index into the base order ACGTN', key='mask-semantics', undecided=True)
        return True
    bad, badidx = [], []
    n = 0
    try:
        for row in itertools.product(range(0, 4), repeat=5):
            if sum(row) == 0:
                continue
            n += 1
            ev = RowEval(row, env, row_exprs)
            got = ev.ev(cond)
            want = row.count(max(row)) == 1
            if bool(got) != want and len(bad) < 3:
                bad.append({'votes(A,C,G,T,N)': row, 'code keeps position': bool(got), 'unique maximum': want})
            if want and bool(got):
                w = ev.ev(idx)
                if w != row.index(max(row)) and len(badidx) < 3:
                    badidx.append({'votes(A,C,G,T,N)': row, 'index called': w, 'argmax': row.index(max(row))})
    except Unfoldable as ex:
        ctx.emit('C13-R1', False, MOLECULE, store, f'tie guard `{src(cond)[:80]}` uses an idiom the row evaluator does not know: {ex}', key='mask-semantics', undecided=True)
        return True
    ctx.counters['abstract_cases'] += n
    ctx.emit('C13-R1', not bad, MOLECULE, store, f'tie guard `{src(cond)[:90]}` on {n} abstract vote rows ({{0..3}}^5): ' +
             ('kept <=> the maximum is attained exactly once' if not bad else f'differs, e.g. {bad[0]}'), key='mask-semantics', witness=bad[0] if bad else None,
             what='get_consensus: tie mask is not "maximum attained exactly once"')
    ctx.exhaustive['C13-R1'] = True
    ctx.emit('C13-R1', not badidx, MOLECULE, store, f'called base = ACGTN[`{src(idx)}`] = argmax over the vote row' if not badidx else f'called base index differs from argmax, e.g. {badidx[0]}',
             key='argmax', witness=badidx[0] if badidx else None, what='get_consensus: called base is not the majority base')
    return True


def consensus_model(ctx, full=True):
    """Molecule.get_consensus run by the abstract interpreter (numpy included) on model molecules: every multiset of one to three fragments whose calls at two
    positions are A / C / N / none, in two insertion orders, plus a fragment whose extraction fails (ValueError).  Required: a position is reported iff one
    base was called by strictly more fragments than any other (N calls never vote), with that base; the failing fragment is skipped, the others still count.
    (ok, cases, witness) / None when outside the interpreted subset.  Cached per run."""
    if hasattr(ctx, '_consensus_model') and (getattr(ctx, '_consensus_model_full', False) or not full):
        return ctx._consensus_model
    ctx._consensus_model_full = full
    from ..consteval import Raised, module_scope
    ctx._consensus_model = None
    try:
        env = module_scope(ctx.ix, MOLECULE)
        cls = env.get('Molecule')
        f = cls.method('get_consensus')[0]
    except Exception:
        return None
    opts = [dict(zip((1, 2), c)) for c in itertools.product(('A', 'C', 'N', None), repeat=2)]
    frs = {f'f{i}': {('c', p_): (b_, 30 if b_ != 'N' else 0) for p_, b_ in o.items() if b_ is not None} for i, o in enumerate(opts)}

    class Mol(list):
        pass

    def hook(ev, call, env_):
        if isinstance(call.func, ast.Attribute) and call.func.attr in ('get_consensus', 'has_R1', 'has_R2'):
            try:
                base = ev.ev(call.func.value, env_)
            except Unfoldable:
                return NotImplemented
            if base == 'bad':
                if call.func.attr == 'get_consensus':
                    raise Raised('ValueError', 'This method only works for inwards facing reads')
                return True
            if isinstance(base, str) and base in frs:
                return dict(frs[base]) if call.func.attr == 'get_consensus' else True
        return NotImplemented
    # second family: one position, up to four fragments, three letters, two qualities (a vote is a vote whatever its quality; a plurality of 2 out of 4 wins)
    one = {'A10': ('A', 10), 'A40': ('A', 40), 'C10': ('C', 10), 'C40': ('C', 40), 'G10': ('G', 10), 'N0': ('N', 0), 'none': None}
    for k_, c_ in one.items():
        frs['q' + k_] = {('c', 1): c_} if c_ is not None else {}
    n = 0
    sc = dict(cls.scope)
    sc['__class__'] = cls
    from ..consteval import run_function as _run

    def run_function(fn, args, **kw):
        # an exception of the analysed code itself (not of a construct the interpreter lacks) is an answer, and not the expected one
        try:
            return _run(fn, args, **kw)
        except Raised as r_:
            if r_.name in ('ValueError', 'IndexError', 'KeyError', 'ZeroDivisionError', 'OverflowError', 'StopIteration'):
                return {('raises', r_.name): str(r_)[:80]}
            raise
    family1 = [(size, combo) for size in ((1, 2, 3) if full else (1, 2)) for combo in itertools.combinations_with_replacement(sorted(k_ for k_ in frs if k_.startswith('f')), size)]
    family2 = [(size, combo) for size in ((2, 3, 4) if full else (3, 4)) for combo in itertools.combinations_with_replacement(sorted(k_ for k_ in frs if k_.startswith('q')), size)]
    if not full:
        family1 = family1[::2]
        family2 = family2[::2]
    # third family: wide molecules (more positions than any table size a restructured tally may start with): three fragments over 700 positions
    wide = {'wA': {('c', p_): ('A', 30) for p_ in range(700)}, 'wB': {('c', p_): (('A', 'C', 'G')[p_ % 3], 30) for p_ in range(700)}, 'wC': {('c', p_): (('C', 'A')[p_ % 2], 30) for p_ in range(0, 700, 2)}}
    frs.update(wide)
    try:
        for members in (['wA', 'wB', 'wC'], ['wC', 'wB', 'wA']):
            n += 1
            got = run_function(f, [Mol(members)], env=sc, call_hook=hook, budget=4000000)
            want = {}
            for p_ in range(700):
                votes = {}
                for m_ in members:
                    c_ = frs[m_].get(('c', p_))
                    if c_ is not None:
                        votes[c_[0]] = votes.get(c_[0], 0) + 1
                top = max(votes.values())
                win = [b_ for b_, k_ in votes.items() if k_ == top]
                if len(win) == 1:
                    want[('c', p_)] = win[0]
            got = {tuple(k_): v_ for k_, v_ in dict(got).items()}
            if got != want:
                diff = sorted(k_[1] for k_ in set(got) | set(want) if got.get(k_) != want.get(k_))
                ctx._consensus_model = (False, n, {'molecule': 'three fragments covering 700 positions', 'first positions whose consensus differs from the strict majority': diff[:5],
                                                   'returned there': [got.get(('c', p_)) for p_ in diff[:5]], 'strict majority there': [want.get(('c', p_)) for p_ in diff[:5]]})
                return ctx._consensus_model
        # fourth family: deep molecules (more fragments than a narrow counter type can count): 260 fragments calling A and 10 calling C at one position
        deep = ['qA40'] * 260 + ['qC10'] * 10
        n += 1
        got = run_function(f, [Mol(deep)], env=sc, call_hook=hook, budget=4000000)
        got = {tuple(k_): v_ for k_, v_ in dict(got).items()}
        if got != {('c', 1): 'A'}:
            ctx._consensus_model = (False, n, {'molecule': '260 fragments call A and 10 call C at position 1', 'consensus returned': {k_[1]: v_ for k_, v_ in got.items()}, 'strict majority': {1: 'A'}})
            return ctx._consensus_model
        for size, combo in family1 + family2:
            if True:
                for order in ((combo, combo[::-1]) if size > 1 else (combo,)):
                    for with_bad in ((False, True) if size == 2 and combo[0].startswith('f') else (False,)):
                        n += 1
                        members = list(order)
                        if with_bad:
                            members.insert(1, 'bad')
                        got = run_function(f, [Mol(members)], env=sc, call_hook=hook, budget=200000)
                        want = {}
                        for p_ in (1, 2):
                            votes = {}
                            for m_ in order:
                                c_ = frs[m_].get(('c', p_))
                                if c_ is not None and c_[0] != 'N':
                                    votes[c_[0]] = votes.get(c_[0], 0) + 1
                            if votes:
                                top = max(votes.values())
                                win = [b_ for b_, k_ in votes.items() if k_ == top]
                                if len(win) == 1:
                                    want[('c', p_)] = win[0]
                        got = {tuple(k_): v_ for k_, v_ in dict(got).items()}
                        if got != want:
                            ctx._consensus_model = (False, n, {'fragment calls (position -> base)': [{k_[1]: v_[0] for k_, v_ in frs[m_].items()} if m_ != 'bad' else 'raises ValueError' for m_ in members],
                                                               'consensus returned': {k_[1]: v_ for k_, v_ in got.items()}, 'strict majority': {k_[1]: v_ for k_, v_ in want.items()}})
                            return ctx._consensus_model
    except (Unfoldable, Raised):
        return None
    except Exception:
        return None
    ctx._consensus_model = (True, n, None)
    return ctx._consensus_model


def _consensus_model_or_structural(ctx, rid, structural):
    """the structural reading of Molecule.get_consensus decides; where it cannot follow a restructured method the interpreted model (consensus_model) decides the
    obligations about Molecule.get_consensus instead"""
    from ..core import Ctx, VIOLATED, UNDECIDED
    sub = Ctx(ctx.ix, 'C13', ctx.tier)
    err = None
    try:
        structural(sub)
    except AnalysisError as e_:
        err = e_
    except Exception as e_:
        err = AnalysisError(f'structural reading failed ({type(e_).__name__}: {e_})')
    for k_, v_ in sub.counters.items():
        ctx.counters[k_] = (ctx.counters.get(k_, set()) | v_) if isinstance(v_, set) else ctx.counters.get(k_, 0) + v_
    for k_, v_ in getattr(sub, 'exhaustive', {}).items():
        ctx.exhaustive[k_] = v_
    open_ = [o for o in sub.obligations if o.status in (VIOLATED, UNDECIDED) and 'Molecule.get_consensus' in o.construct and 'fragment-calls-not-shared' not in o.construct and 'result-from-tally' not in o.construct]
    if err is None and not open_:
        ctx.obligations.extend(sub.obligations)
        return
    m = consensus_model(ctx)
    if m is None:
        ctx.obligations.extend(sub.obligations)
        if err is not None:
            raise err
        return
    ok, n, wit = m
    f = ctx.fn(MOLECULE, FN)
    ctx.counters['interpreted_cases'] += n
    if ok:
        ctx.obligations.extend([o for o in sub.obligations if o not in open_])
        ctx.emit(rid, True, MOLECULE, f, f'Molecule.get_consensus interpreted on {n} model molecules (1-3 fragments, calls A / C / N / none at two positions, two insertion orders, a failing fragment): a position is reported '
                 f'iff one base has strictly the most votes, N never votes, a failing fragment is skipped (the structural reading did not follow the restructured method)', key='consensus-model')
    else:
        ctx.obligations.extend(sub.obligations)
        ctx.emit(rid, False, MOLECULE, f, f'Molecule.get_consensus on a model molecule: {wit}', key='consensus-model', witness=wit, what='get_consensus: the reported consensus is not the strict majority call')


@rule('C13', 'C13-R1', 'the consensus is built only from positions where the maximum vote is attained exactly once: the mask indexing both '
                       'returns equals "unique maximum" on every abstract vote row')
def r1(ctx):
    _consensus_model_or_structural(ctx, 'C13-R1', _r1_impl)


def _r1_all_results_from_the_tally(ctx, f):
    """every non-empty result of get_consensus is computed from the vote accumulator (the N filter and the tie mask sit between the fragment calls and the result)"""
    acc = None
    for s_ in walk_no_nested(f):
        if isinstance(s_, ast.Assign) and len(s_.targets) == 1 and isinstance(s_.targets[0], ast.Name) and isinstance(s_.value, ast.Call) and (dotted(s_.value.func) or '').endswith('defaultdict') \
                and s_.value.args and 'consensii_default_vector' in src(s_.value.args[0]):
            acc = s_.targets[0].id
    if acc is None:
        acc = 'consensii'
    derived = {acc}
    changed = True
    while changed:
        changed = False
        for s_ in walk_no_nested(f):
            tg = []
            if isinstance(s_, ast.Assign):
                tg = [n_.id for t_ in s_.targets for n_ in ast.walk(t_) if isinstance(n_, ast.Name)]
                val = s_.value
            elif isinstance(s_, ast.For):
                tg = [n_.id for n_ in ast.walk(s_.target) if isinstance(n_, ast.Name)]
                val = s_.iter
            elif isinstance(s_, ast.Expr) and isinstance(s_.value, ast.Call) and isinstance(s_.value.func, ast.Attribute) and isinstance(s_.value.func.value, ast.Name) \
                    and s_.value.func.attr in ('update', 'append', 'extend', 'add', 'setdefault', '__setitem__'):
                # a container filled in place from the tally: `consensus.update(... consensii ...)`
                tg = [s_.value.func.value.id]
                val = ast.Tuple(elts=list(s_.value.args) + [k_.value for k_ in s_.value.keywords], ctx=ast.Load())
            else:
                continue
            if names_in(val) & derived and not set(tg) <= derived:
                derived |= set(tg)
                changed = True

    def empty(e):
        if isinstance(e, ast.Tuple):
            return all(empty(x) for x in e.elts)
        if isinstance(e, ast.Constant) and e.value is None:
            return True
        if isinstance(e, ast.Call) and dotted(e.func) in ('dict', 'list', 'tuple') and not e.args and not e.keywords:
            return True
        return isinstance(e, (ast.Dict, ast.List)) and not (e.keys if isinstance(e, ast.Dict) else e.elts)
    n = 0
    for r in [x for x in walk_no_nested(f) if isinstance(x, ast.Return) and x.value is not None]:
        n += 1
        if empty(r.value) or names_in(r.value) & derived:
            continue
        direct = any(isinstance(c, ast.Call) and isinstance(c.func, ast.Attribute) and c.func.attr == 'get_consensus' for c in ast.walk(r.value))
        src_names = names_in(r.value)
        via = [s_ for s_ in walk_no_nested(f) if isinstance(s_, ast.Assign) and any(isinstance(t_, ast.Name) and t_.id in src_names for t_ in s_.targets)
               and any(isinstance(c, ast.Call) and isinstance(c.func, ast.Attribute) and c.func.attr == 'get_consensus' for c in ast.walk(s_.value))]
        filt = any(isinstance(c_, ast.Constant) and c_.value == 'N' for x_ in [r.value] + [v_.value for v_ in via] for c_ in ast.walk(x_))
        if (direct or via) and not filt:
            ctx.emit('C13-R1', False, MOLECULE, r, f'`{src(r)[:140]}` hands back the calls of a fragment directly: they pass neither the N filter nor the tie mask of the tally (an N call, or the ("N", 0) of two '
                     f'disagreeing mates of equal quality, is reported as consensus base)', key='result-from-tally', what='get_consensus: a result is returned that was not computed from the vote matrix')
        else:
            ctx.emit('C13-R1', False, MOLECULE, r, f'`{src(r)[:140]}`: not recognised as empty or as computed from the vote accumulator `{acc}`', key='result-from-tally', undecided=True)
        return
    ctx.emit('C13-R1', True, MOLECULE, f, f'{n} returns: each is empty or computed from the vote accumulator `{acc}`', key='result-from-tally')


def _r1_impl(ctx):
    f = ctx.fn(MOLECULE, FN)
    _r1_all_results_from_the_tally(ctx, f)
    env = {s.targets[0].id: s.value for s in f.body if isinstance(s, ast.Assign) and isinstance(s.targets[0], ast.Name)}
    # a returned local that holds the consensus dictionary stands for its defining expression
    import copy as _copy
    single = {k: v for k, v in env.items() if sum(1 for s_ in walk_no_nested(f) if isinstance(s_, ast.Assign) and any(isinstance(t_, ast.Name) and t_.id == k for t_ in s_.targets)) == 1}

    class _Exp(ast.NodeTransformer):
        def visit_Name(self, node):
            if isinstance(node.ctx, ast.Load) and node.id in single and 'locations' in names_in(single[node.id]) and node.id != 'locations' and isinstance(single[node.id], ast.Call) \
                    and dotted(single[node.id].func) == 'dict':
                return _copy.deepcopy(single[node.id])
            return node
    rets_all = [r for r in walk_no_nested(f) if isinstance(r, ast.Return) and r.value is not None]
    expanded = {id(r): _Exp().visit(_copy.deepcopy(r.value)) for r in rets_all}
    rets = [r for r in rets_all if 'locations' in names_in(expanded[id(r)])]
    if not rets and _r1_scalar(ctx, f):
        return
    ctx.need('C13-R1', len(rets), 2, 'returns of the consensus dictionary')
    masks = set()
    idxs = set()
    mod = ctx.ix.module(MOLECULE)
    for r in rets:
        parent_of = {}
        for p_ in ast.walk(expanded[id(r)]):
            for c_ in ast.iter_child_nodes(p_):
                parent_of[c_] = p_
        for n in walk_no_nested(expanded[id(r)]):
            if isinstance(n, ast.Subscript) and src(n.value) == 'locations':
                masks.add(src(n.slice))
            if isinstance(n, ast.Name) and n.id == 'locations' and not isinstance(parent_of.get(n), ast.Subscript):
                masks.add('<unmasked>')
            if isinstance(n, ast.Subscript) and src(n.value) in env and 'argmax' in src(env[src(n.value)]):
                idxs.add((src(n.value), src(n.slice)))
    ok = len(masks) == 1 and all(m == list(masks)[0] for _, m in idxs) and len(idxs) >= 1
    mname = list(masks)[0] if len(masks) == 1 else None
    ctx.emit('C13-R1', ok, MOLECULE, rets[0], f'both returns select positions and bases with the same mask `{mname}` (bases = argmax index under that mask)' if ok else
             f'positions are selected with {sorted(masks)}, bases with {sorted(idxs)}: the tie mask is not applied consistently', key='mask-applied',
             what='get_consensus: positions / bases are returned without the tie mask')
    if mname is None or mname not in env:
        ctx.emit('C13-R1', False, MOLECULE, f, 'tie mask definition not found', key='mask-semantics', undecided=True)
        return
    mexpr = env[mname]
    vdef = env.get('v')
    okv = vdef is not None and 'vstack' in src(vdef) and 'consensii[' in src(vdef)
    ctx.emit('C13-R1', okv, MOLECULE, vdef if vdef is not None else f, 'vote matrix v stacks the per-position count vectors', key='vote-matrix', nontrivial=False)
    # every tallied position is decided: the positions array holds exactly the keys of the tally (re-ordering wrappers only), not a walk over
    # some other range intersected with the tally
    tally = None
    if vdef is not None:
        for n_ in ast.walk(vdef):
            if isinstance(n_, ast.Subscript) and isinstance(n_.value, ast.Name) and n_.value.id != 'np':
                tally = n_.value.id
    locsrc = [s_.value for s_ in walk_no_nested(f) if isinstance(s_, ast.Assign) and any(src(t_) in ('locations', 'locations[:]') for t_ in s_.targets)
              and not (isinstance(s_.value, ast.Call) and last_name(dotted(s_.value.func) or '') in ('empty', 'zeros'))]

    def all_keys_of(e, depth=0):
        if depth > 5 or tally is None:
            return False
        if isinstance(e, ast.Name):
            if e.id == tally:
                return True
            dd = [s_.value for s_ in walk_no_nested(f) if isinstance(s_, ast.Assign) and len(s_.targets) == 1 and src(s_.targets[0]) == e.id]
            return len(dd) == 1 and all_keys_of(dd[0], depth + 1)
        if isinstance(e, ast.Call) and isinstance(e.func, ast.Attribute) and e.func.attr == 'keys' and not e.args:
            return all_keys_of(e.func.value, depth + 1)
        if isinstance(e, ast.Call) and last_name(dotted(e.func) or '') in ('sorted', 'list', 'tuple', 'array', 'asarray', 'fromiter', 'iter') and e.args:
            return all_keys_of(e.args[0], depth + 1)
        if isinstance(e, (ast.ListComp, ast.GeneratorExp)) and len(e.generators) == 1 and not e.generators[0].ifs and src(e.elt) == src(e.generators[0].target):
            return all_keys_of(e.generators[0].iter, depth + 1)
        return False
    okl = bool(locsrc) and all(all_keys_of(e_) for e_ in locsrc)
    ctx.emit('C13-R1', okl, MOLECULE, locsrc[0] if locsrc else f, f'the decided positions are all keys of the tally `{tally}`' if okl else
             f'the decided positions `{src(locsrc[0])[:80] if locsrc else None}` are not simply all keys of the tally: tallied positions can be left without a call', key='all-tallied-positions',
             what='get_consensus: tallied positions are dropped before the majority decision')
    bad = []
    n = 0
    try:
        for row in itertools.product(range(0, 4), repeat=5):
            if sum(row) == 0:
                continue
            n += 1
            got = RowEval(row, env).ev(mexpr)
            want = row.count(max(row)) == 1
            if bool(got) != want and len(bad) < 3:
                bad.append({'votes(A,C,G,T,N)': row, 'code keeps position': bool(got), 'unique maximum': want})
    except Unfoldable as ex:
        ctx.emit('C13-R1', False, MOLECULE, mexpr, f'tie mask `{src(mexpr)[:80]}` uses an idiom the row evaluator does not know: {ex}', key='mask-semantics', undecided=True)
        return
    ctx.counters['abstract_cases'] += n
    ctx.emit('C13-R1', not bad, MOLECULE, mexpr, f'tie mask `{src(mexpr)[:90]}` on {n} abstract vote rows ({{0..3}}^5): ' +
             ('kept <=> the maximum is attained exactly once' if not bad else f'differs, e.g. {bad[0]}'), key='mask-semantics', witness=bad[0] if bad else None,
             what='get_consensus: tie mask is not "maximum attained exactly once"')
    ctx.exhaustive['C13-R1'] = True
    am = env.get('majority_base_indices')
    ok = am is not None and src(am).replace(' ', '') in ('np.argmax(v,axis=1)', 'v.argmax(axis=1)', 'v.argmax(1)')
    ctx.emit('C13-R1', ok, MOLECULE, am if am is not None else f, f'called base = argmax over the vote row: `{src(am) if am is not None else None}`', key='argmax', nontrivial=False)


@rule('C13', 'C13-R2', 'N calls never vote; each fragment adds exactly 1 to exactly one counter per position; the accumulator is only '
                       'incremented (commutative) and never read inside the loop; a failing fragment is skipped without stopping the tally')
def r2(ctx):
    _consensus_model_or_structural(ctx, 'C13-R2', _r2_structural)


def _r2_structural(ctx):
    ix = ctx.ix
    f = ctx.fn(MOLECULE, FN)
    outer = [l for l in f.body if isinstance(l, ast.For) and src(l.iter) == 'self']
    wrapped = False
    if not outer:
        # the fragment loop may have been wrapped (try around the loop)
        for t in [x for x in f.body if isinstance(x, ast.Try)]:
            for l in t.body:
                if isinstance(l, ast.For) and src(l.iter) == 'self':
                    outer = [l]
                    wrapped = True
    if len(outer) != 1:
        raise AnalysisError('get_consensus: loop over the fragments not found')
    fl = outer[0]
    inner = [l for l in walk_no_nested(fl) if isinstance(l, ast.For) and l is not fl and 'get_consensus' in src(l.iter)]
    if not inner:
        # the calls of a fragment looked up in a table that is filled on demand (`if key not in table: table[key] = fragment.get_consensus(..)`): a memo across fragments
        fills = [s_ for s_ in walk_no_nested(fl) if isinstance(s_, ast.Assign) and len(s_.targets) == 1 and isinstance(s_.targets[0], ast.Subscript) and isinstance(s_.targets[0].value, ast.Name)
                 and isinstance(s_.value, ast.Call) and isinstance(s_.value.func, ast.Attribute) and s_.value.func.attr == 'get_consensus']
        for fill in fills:
            tab, key = fill.targets[0].value.id, fill.targets[0].slice
            inner = [l for l in walk_no_nested(fl) if isinstance(l, ast.For) and l is not fl and src(l.iter).replace(' ', '').startswith(f'{tab}[{src(key)}]')]
            if len(inner) == 1:
                kdef = [s_.value for s_ in walk_no_nested(fl) if isinstance(s_, ast.Assign) and isinstance(key, ast.Name) and any(isinstance(t_, ast.Name) and t_.id == key.id for t_ in s_.targets)]
                kexpr = kdef[-1] if kdef else key
                attrs = {n_.attr for n_ in ast.walk(kexpr) if isinstance(n_, ast.Attribute)}
                outside = not any(s_ is fill for s_ in walk_no_nested(fl))
                has_q = bool(attrs & {'query_qualities', 'qual', 'query_alignment_qualities', 'qualities'})
                if not has_q:
                    ctx.emit('C13-R2', False, MOLECULE, fill, f'the calls of a fragment are remembered under the key `{src(kexpr)[:140]}` and re-used for every later fragment with the same key: the key does not contain the '
                             f'base qualities, so a fragment with the same read sequences but other qualities gets the arbitration (higher-quality mate) of the earlier fragment instead of its own',
                             key='fragment-calls-not-shared', what='get_consensus: fragment calls are memoised under a key that does not determine them')
                else:
                    ctx.emit('C13-R2', False, MOLECULE, fill, f'the calls of a fragment are remembered under the key `{src(kexpr)[:140]}`: cannot show that the key determines the calls', key='fragment-calls-not-shared', undecided=True)
                break
    if len(inner) != 1:
        raise AnalysisError('get_consensus: loop over the fragment consensus not found')
    il = inner[0]
    cfg = CFG(il.body, exceptions=False)
    dom = cfg.dominators()
    upd = [n for n in cfg.nodes if n.kind == 'stmt' and isinstance(n.ast, ast.AugAssign) and src(n.ast.target).startswith('consensii[')]
    # the called base is the first element of the value the fragment consensus maps a position to
    qb = None
    if isinstance(il.target, ast.Tuple) and len(il.target.elts) == 2 and isinstance(il.target.elts[1], ast.Tuple) and isinstance(il.target.elts[1].elts[0], ast.Name):
        qb = il.target.elts[1].elts[0].id
    ok = False
    if qb is not None and len(upd) == 1:
        # with an N call no feasible path of the loop body reaches the vote update (continue guard, positive if, ...)
        rs = explore(il.body, mk_atoms({f"{qb} == 'N'": True}))
        ok = bool(rs) and not any(any(k == 'AugAssign' and t.startswith('consensii[') for t, v, k in r['stores']) for r in rs)
        rs2 = explore(il.body, mk_atoms({f"{qb} == 'N'": False}))
        ok = ok and bool(rs2) and all(any(k == 'AugAssign' and t.startswith('consensii[') for t, v, k in r['stores']) for r in rs2 if r['kind'] in ('fall', 'continue'))
    ctx.emit('C13-R2', ok, MOLECULE, upd[0].ast if upd else il, 'an N call never reaches the vote update, every other call does' if ok else 'an N call can reach the vote update (or a called base does not)', key='N-excluded')
    if upd:
        a = upd[0].ast
        posv = il.target.elts[0].id if isinstance(il.target, ast.Tuple) and isinstance(il.target.elts[0], ast.Name) else 'position'
        ok = isinstance(a.op, ast.Add) and src(a.value) == '1' and src(a.target).replace('"', "'") == f"consensii[{posv}]['ACGTN'.index({qb})]"
        ctx.emit('C13-R2', ok, MOLECULE, a, f'vote update `{src(a)}`' + (' adds exactly 1 to the counter of the called base' if ok else ' is not a unit increment of the called base'), key='unit-increment',
                 what='get_consensus: a fragment does not contribute exactly one vote')
    reads = [n for n in walk_no_nested(fl) if isinstance(n, ast.Name) and n.id == 'consensii' and isinstance(n.ctx, ast.Load) and not any(n is x for u in upd for x in ast.walk(u.ast))]
    ctx.emit('C13-R2', not reads, MOLECULE, fl, 'the accumulator is not read inside the fragment loop (updates commute)' if not reads else 'the accumulator feeds control / data flow inside the loop', key='accumulator-not-read')
    # exception containment: a ValueError of one fragment must not leave the fragment loop
    def may_raise(kind, a):
        if kind in ('with_exit', 'except') or isinstance(a, ast.Raise):
            return set()
        tgt = a.test if kind == 'test' else a.iter if kind == 'for' else a
        return {'ValueError'} if any(isinstance(n, ast.Call) and 'get_consensus' in (dotted(n.func) or '') for n in walk_no_nested(tgt)) else set()
    bcfg = CFG(fl.body, may_raise=may_raise, is_subclass=ix.is_subclass_name)
    escapes = 'raise' in bcfg.terms and bool(bcfg.pred[bcfg.terms['raise']])
    ctx.emit('C13-R2', not escapes and not wrapped, MOLECULE, fl, 'a ValueError raised while extracting one fragment is caught inside the loop body: the remaining fragments are still tallied' if not escapes and not wrapped else
             'a ValueError of one fragment leaves the fragment loop (handler outside the loop): fragments added after it are not tallied -> the result depends on the insertion order',
             key='per-fragment-exception-containment', what='get_consensus: exception of one fragment aborts the tally of the later fragments')
    # each fragment contributes through pick_best_base_call of its two mates
    g = ctx.fn(FRAGMENT, 'Fragment.get_consensus')
    # one call per position covered by either mate: value = pick_best_base_call(A.get(k), B.get(k)) for k over keys(A) | keys(B), where (A, B) are
    # the two dictionaries returned by get_consensus_dictionaries (unpacked, or indexed [0] / [1])
    ok = False
    picks = [c for c in walk_no_nested(g) if isinstance(c, ast.Call) and last_name(dotted(c.func) or '') == 'pick_best_base_call' and len(c.args) == 2]
    srcs = [s_ for s_ in walk_no_nested(g) if isinstance(s_, ast.Assign) and isinstance(s_.value, ast.Call) and last_name(dotted(s_.value.func) or '') == 'get_consensus_dictionaries']
    if len(picks) == 1 and len(srcs) == 1:
        a1, a2 = picks[0].args
        tg = srcs[0].targets[0]
        if isinstance(tg, ast.Tuple) and len(tg.elts) == 2:
            want = [src(tg.elts[0]), src(tg.elts[1])]
        else:
            want = [f'{src(tg)}[0]', f'{src(tg)}[1]']
        def base_and_key(a_):
            if isinstance(a_, ast.Call) and isinstance(a_.func, ast.Attribute) and a_.func.attr == 'get' and len(a_.args) == 1:
                return src(a_.func.value), src(a_.args[0])
            if isinstance(a_, ast.Subscript):
                return None, None      # A[k] raises for a position covered by one mate only
            return None, None
        (b1, k1), (b2, k2) = base_and_key(a1), base_and_key(a2)
        whole = src(g)
        ok = [b1, b2] == want and k1 == k2 and k1 is not None and f'{b1}.keys()' in whole and f'{b2}.keys()' in whole and ('.union(' in whole or ' | ' in whole)
    ctx.emit('C13-R2', ok, FRAGMENT, g, 'a fragment yields one call per covered position: the better of its two mates', key='one-call-per-fragment')


@rule('C13', 'C13-R4', 'mate arbitration: the higher quality call wins, equal quality with different bases gives ("N", 0), identical calls agree, '
                       'a call of quality 0 still counts when it is the only one (enumerated over the abstract (quality order x base equality x missing) cases)')
def r4(ctx):
    g = ctx.fn(SEQUTILS, 'pick_best_base_call')
    quals = (0, 1, 2)
    bases = ('A', 'C')
    calls = [None] + [(b, q) for b in bases for q in quals]
    bad = []
    n = 0
    try:
        from ..consteval import module_scope
        genv = module_scope(ctx.ix, SEQUTILS)       # private helpers / constants of the module the function leans on
    except Exception:
        genv = {}
    try:
        for c1 in calls:
            for c2 in calls:
                n += 1
                got = run_function(g, [c1, c2], env=genv)
                present = [c for c in (c1, c2) if c is not None]
                if not present:
                    want = ('N', 0)
                elif len(present) == 1:
                    want = present[0]
                else:
                    (b1, q1), (b2, q2) = present
                    want = (b1, q1) if q1 > q2 else (b2, q2) if q2 > q1 else ((b1, q1) if b1 == b2 else ('N', 0))
                if tuple(got) != tuple(want) and len(bad) < 3:
                    bad.append({'calls': (c1, c2), 'code': got, 'expected': want})
    except Unfoldable as ex:
        ctx.emit('C13-R4', False, SEQUTILS, g, f'pick_best_base_call uses a construct outside the interpreted subset: {ex}', key='arbitration', undecided=True)
        return
    ctx.counters['abstract_cases'] += n
    ctx.emit('C13-R4', not bad, SEQUTILS, g, f'pick_best_base_call on {n} abstract call pairs (qualities 0..2, same/different base, missing mate): ' +
             ('higher quality wins, quality tie with different bases -> N, single call kept even at quality 0' if not bad else f'differs, e.g. {bad[0]}'), key='arbitration',
             witness=bad[0] if bad else None, what='pick_best_base_call: arbitration differs from "higher quality wins / tie -> N"')
    ctx.exhaustive['C13-R4'] = True


@rule('C13', 'C13-R5', 'the base and the quality a read contributes at a reference position are taken from the same query position of the read as it is stored '
                       '(no re-ordering of one of the two), and the plain (non dove-safe) mode really is the default mode')
def r5(ctx):
    g = ctx.fn(SEQUTILS, 'read_to_consensus_dict')
    em = dict_emission(g)
    if em is None:
        m = _read_calls_by_interpretation(ctx, g)
        if m is None:
            raise AnalysisError('read_to_consensus_dict: the per-position emission (dict comprehension or loop filling one dictionary) was not found')
        ctx.counters['interpreted_cases'] = ctx.counters.get('interpreted_cases', 0) + m[1]
        ctx.emit('C13-R5', m[0], SEQUTILS, g, f'read_to_consensus_dict interpreted on a model read ({m[1]} option sets): every aligned base - N and quality 0 included - is reported once, with the base and the quality '
                 'stored at its own query position' if m[0] else f'read_to_consensus_dict on a model read: {m[2]}', key='base-and-quality-same-position', witness=m[2],
                 what='read_to_consensus_dict: base and quality of a call come from different query positions')
        ctx.emit('C13-R5', m[0], SEQUTILS, g, 'read_to_consensus_dict reports every aligned base of the window (no filter on the base or its quality)', key='no-base-filter-per-read', nontrivial=False)
        _r5_plain_mode(ctx)
        return
    rd = g.args.args[0].arg
    c = em['node']
    qpos = em['target'].elts[0].id if isinstance(em['target'], ast.Tuple) and isinstance(em['target'].elts[0], ast.Name) else None
    pairs_ok = isinstance(em['iter'], ast.Call) and src(em['iter'].func) == f'{rd}.get_aligned_pairs'
    defs = {}
    for s_ in walk_no_nested(g):
        if isinstance(s_, ast.Assign) and len(s_.targets) == 1 and isinstance(s_.targets[0], ast.Name):
            defs.setdefault(s_.targets[0].id, []).append(src(s_.value))

    def source_of(e):
        """(set of sources of the indexed array, index source) of `array[index]`"""
        if not isinstance(e, ast.Subscript):
            return None, None
        base = e.value
        srcs = {src(base)}
        if isinstance(base, ast.Name) and base.id in defs:
            srcs = set(defs[base.id])
        return srcs, src(e.slice)
    ok = False
    detail = 'value is not a (base, quality, ...) tuple'
    if isinstance(em['value'], ast.Tuple) and len(em['value'].elts) >= 2:
        bs, bi = source_of(em['value'].elts[0])
        qs, qi = source_of(em['value'].elts[1])
        ok = pairs_ok and qpos is not None and bs == {f'{rd}.query_sequence'} and qs == {f'{rd}.query_qualities'} and bi == qpos and qi == qpos
        detail = f'base <- {sorted(bs) if bs else None}[{bi}], quality <- {sorted(qs) if qs else None}[{qi}] with {qpos} from {src(em["iter"])[:50]}'
    ctx.emit('C13-R5', ok, SEQUTILS, c, 'read_to_consensus_dict: ' + detail + ('' if ok else ' - base and quality are not both the stored arrays of the read at the aligned query position'),
             key='base-and-quality-same-position', what='read_to_consensus_dict: base and quality of a call come from different query positions')
    # a read reports every aligned base, N included: whether a base votes is decided later, after the mates were compared by quality.  No
    # condition on the way to the emission may look at the base or its quality.
    seq_names = {f'{rd}.query_sequence', f'{rd}.query_qualities', f'{rd}.seq', f'{rd}.qual', f'{rd}.query_alignment_sequence'} | \
        {n_ for n_, vs in defs.items() if any(v_ in (f'{rd}.query_sequence', f'{rd}.query_qualities', f'{rd}.seq', f'{rd}.qual') for v_ in vs)}
    # (an optional filter that is off by default - `min_phred_score is None or ...` - is part of the documented interface)
    from ..cfg import eval3 as _eval3, UNK as _UNK
    opt_params = [a_.arg for a_, d_ in zip(g.args.args[len(g.args.args) - len(g.args.defaults):], g.args.defaults) if isinstance(d_, ast.Constant) and d_.value is None]
    off = mk_atoms({f'{p_} is None': True for p_ in opt_params})
    base_conds = [t_ for t_ in em['conds'] if any(src(x) in seq_names for x in ast.walk(t_)) and _eval3(t_, {}, off) is not True]
    ctx.emit('C13-R5', not base_conds, SEQUTILS, base_conds[0] if base_conds else c, 'read_to_consensus_dict reports every aligned base of the window (no filter on the base or its quality)' if not base_conds else
             f'read_to_consensus_dict drops calls by `{src(base_conds[0])[:70]}` before the mates are compared: a filtered N (or low quality base) no longer outvotes the other mate\'s call',
             key='no-base-filter-per-read', what='read_to_consensus_dict filters calls by base / quality before mate arbitration')
    _r5_plain_mode(ctx)


def _read_calls_by_interpretation(ctx, g):
    """read_to_consensus_dict run by the abstract interpreter on a model read whose bases and qualities are all different (an N and a quality 0 among them, one reference
    position skipped by a deletion): with the optional filters off, with a window, with the cycle filters.  (ok, cases, witness) or None outside the interpreted subset"""
    from ..consteval import run_function, Raised, Unfoldable, module_scope, Instance
    try:
        env = module_scope(ctx.ix, SEQUTILS)
        seq, quals = 'ACGTNA', [10, 20, 30, 40, 2, 0]
        pairs = [(0, 101, 'A'), (1, 102, 'c'), (2, 104, 'G'), (3, 105, 'T'), (4, 106, 'A'), (5, 107, 'a')]

        def hook(ev, call, env_):
            if isinstance(call.func, ast.Attribute) and call.func.attr == 'get_aligned_pairs':
                return [tuple(p_) for p_ in pairs]
            if isinstance(call.func, ast.Attribute) and call.func.attr == 'infer_query_length':
                return 6
            return NotImplemented
        n = 0
        for rev in (False, True):
            read = Instance(attrs={'reference_name': 'c', 'query_sequence': seq, 'query_qualities': list(quals), 'seq': seq, 'qual': 'IIIIII', 'is_reverse': rev, 'is_unmapped': False})
            for kw, keep in (({}, lambda q, r: True), ({'start': 102, 'end': 106}, lambda q, r: 102 <= r <= 106), ({'min_phred_score': 20}, lambda q, r: quals[q] >= 20)):
                n += 1
                got = dict(run_function(g, [read], dict(kw), env=env, call_hook=hook, budget=40000))
                want = {r_: (seq[q_], quals[q_]) for q_, r_, _ in pairs if keep(q_, r_)}
                seen = {}
                for k_, v_ in got.items():
                    pos = k_ if isinstance(k_, int) else next((x for x in k_ if isinstance(x, int)), None)
                    seen[pos] = (v_[0], v_[1]) if isinstance(v_, (tuple, list)) and len(v_) >= 2 else v_
                if seen != want:
                    diff = sorted(set(seen) ^ set(want)) or [p_ for p_ in want if seen.get(p_) != want[p_]]
                    p0 = diff[0]
                    return (False, n, {'options': kw, 'reverse': rev, 'reference position': p0, 'reported (base, quality)': seen.get(p0), 'stored at the aligned query position': want.get(p0)})
    except (Unfoldable, Raised):
        return None
    except Exception:
        return None
    return (True, n, None)


def _r5_plain_mode(ctx):
    # the default mode: with dove_safe False no window is applied and single-end fragments are not refused
    f = ctx.fn(SEQUTILS, 'get_consensus_dictionaries')
    from ..util import arg as _arg
    rcalls = [c_ for c_ in walk_no_nested(f) if isinstance(c_, ast.Call) and last_name(dotted(c_.func) or '') == 'read_to_consensus_dict'
              and _arg(c_, 1, 'start') is not None and _arg(c_, 2, 'end') is not None]
    starred = []
    if not rcalls:
        # the window handed over as one tuple: read_to_consensus_dict(read, *window, ...)
        starred = [c_ for c_ in walk_no_nested(f) if isinstance(c_, ast.Call) and last_name(dotted(c_.func) or '') == 'read_to_consensus_dict' and len(c_.args) == 2
                   and isinstance(c_.args[1], ast.Starred) and isinstance(c_.args[1].value, ast.Name)]
        if not starred:
            raise AnalysisError('get_consensus_dictionaries: read_to_consensus_dict calls not found')
        rcalls = starred
    if starred:
        names = {c_.args[1].value.id for c_ in starred}
        rs = explore(f.body, mk_atoms({'dove_safe': False, 'not dove_safe': True}), names=names, upto=rcalls[0])
        vals = {tuple(sorted((k_, src(v_)) for k_, v_ in r['env'].items())) for r in rs}
        ok = bool(rs) and all(all(src(v_).replace(' ', '') == '(None,None)' for v_ in r['env'].values()) and len(r['env']) == len(names) for r in rs)
    else:
        names = {a_.id for c_ in rcalls for a_ in (_arg(c_, 1, 'start'), _arg(c_, 2, 'end')) if isinstance(a_, ast.Name)}
        rs = explore(f.body, mk_atoms({'dove_safe': False}), names=names, upto=rcalls[0])
        vals = {tuple(sorted((k_, src(v_)) for k_, v_ in r['env'].items())) for r in rs}
        ok = bool(rs) and all(all(src(v_) == 'None' for v_ in r['env'].values()) and len(r['env']) == len(names) for r in rs)
    raises = [r for r in explore(f.body, mk_atoms({'dove_safe': False, 'R1 is None': False, 'R2 is None': True})) if r['kind'] == 'raise']
    ctx.emit('C13-R5', ok and not raises, SEQUTILS, rcalls[0], 'with dove_safe=False the extraction window is (None, None) on every path and a missing mate is accepted' if ok and not raises else
             f'with dove_safe=False the window is {sorted(vals)[:2]} / a missing mate raises on {len(raises)} path(s): the default mode behaves like the dove-safe mode',
             key='plain-mode-is-default', what='get_consensus_dictionaries: the dove-safe branch is taken although dove_safe is False')


@rule('C13', 'C13-R6', 'the consensus is computed from the molecule as it is now: a result saved by get_consensus (or by what it calls) is discarded when a fragment joins '
                       'the molecule (`_add_fragment` resets every such field)')
def r6(ctx):
    from . import shared
    shared.memo_invalidation(ctx, 'C13-R6', MOLECULE, 'Molecule', [FN.split('.')[-1]], what='Molecule.get_consensus')


def _fragment_consensus_by_interpretation(ctx, f):
    """Fragment.get_consensus run by the abstract interpreter on model mate pairs whose per-mate calls are given (mates sharing several positions, exactly one position,
    abutting, apart; single mate): every reported position carries the arbitrated (base, quality) of the calls at that position - the higher quality, N at equal quality and
    different bases, the only call where one mate covers it.  (ok, cases, witness) or None outside the interpreted subset"""
    from ..consteval import module_scope, Evaluator, Instance, Unfoldable, Raised
    try:
        env = module_scope(ctx.ix, FRAGMENT)
        cls = env['Fragment']
        n = 0

        def calls(start, end, base, q):
            return {p_: (base, q, 'A') for p_ in range(start, end)}
        layouts = [('mates share positions 140-149', (100, 150), (140, 200)), ('mates share exactly position 149', (100, 150), (149, 200)), ('mates abut at 150', (100, 150), (150, 200)),
                   ('mates are apart', (100, 150), (170, 200)), ('R2 lies left of R1, sharing position 100', (100, 150), (60, 101)), ('R1 only', (100, 150), None)]
        for text, m1, m2 in layouts:
            for (b1, q1), (b2, q2) in ((('C', 30), ('T', 20)), (('C', 20), ('T', 30)), (('C', 30), ('T', 30)), (('C', 30), ('C', 10))):
                n += 1
                d1 = calls(m1[0], m1[1], b1, q1)
                d2 = calls(m2[0], m2[1], b2, q2) if m2 else {}
                R1 = Instance(attrs={'reference_start': m1[0], 'reference_end': m1[1], 'is_reverse': False, 'is_read1': True, 'is_read2': False, 'is_unmapped': False})
                R2 = Instance(attrs={'reference_start': m2[0], 'reference_end': m2[1], 'is_reverse': True, 'is_read1': False, 'is_read2': True, 'is_unmapped': False}) if m2 else None
                frag = Instance(cls, attrs={'reads': [R1, R2], 'R1': R1, 'R2': R2})

                def hook(ev, call, env_, d1=d1, d2=d2):
                    if last_name(dotted(call.func) or '') == 'get_consensus_dictionaries':
                        return (dict(d1), dict(d2))
                    return NotImplemented
                e = dict(env)
                e['frag'] = frag
                got = Evaluator(e, budget=200000, call_hook=hook).ev(ast.parse('frag.get_consensus()', mode='eval').body, e)
                want = {}
                for p_ in set(d1) | set(d2):
                    c1, c2 = d1.get(p_), d2.get(p_)
                    if c1 is None or c2 is None:
                        c = c1 or c2
                        want[p_] = (c[0], c[1])
                    elif c1[1] != c2[1]:
                        c = c1 if c1[1] > c2[1] else c2
                        want[p_] = (c[0], c[1])
                    else:
                        want[p_] = (c1[0], c1[1]) if c1[0] == c2[0] else ('N', 0)
                gotn = {k_: (tuple(v_)[0], tuple(v_)[1]) if isinstance(v_, (tuple, list)) and len(v_) >= 2 else v_ for k_, v_ in dict(got).items()}
                if gotn != want or any(len(tuple(v_)) != 2 for v_ in dict(got).values()):
                    p0 = sorted(set(gotn) ^ set(want) or [p_ for p_ in want if gotn.get(p_) != want[p_]] or list(gotn))[0]
                    return (False, n, {'mates': text, 'R1 calls': (b1, q1), 'R2 calls': (b2, q2), 'position': p0, 'reported': dict(got).get(p0), 'arbitrated call': want.get(p0)})
        return (True, n, None)
    except (Unfoldable, Raised):
        return None
    except Exception:
        return None


@rule('C13', 'C13-R7', 'what a fragment hands to the molecule tally is the arbitrated call: every value of the dictionary Fragment.get_consensus returns is the result of '
                       'pick_best_base_call (a (base, quality) pair) - a per-mate dictionary passed through as it is carries (base, quality, reference base) records, the '
                       'tally fails to unpack them and the fragment silently contributes no vote')
def r7(ctx):
    f = ctx.fn(FRAGMENT, 'Fragment.get_consensus')
    m = _fragment_consensus_by_interpretation(ctx, f)
    if m is not None:
        ctx.counters['interpreted_cases'] = ctx.counters.get('interpreted_cases', 0) + m[1]
        ctx.emit('C13-R7', m[0], FRAGMENT, f, f'Fragment.get_consensus interpreted on {m[1]} model mate pairs (shared / single shared / abutting / separate positions x quality orders): every position carries the '
                 'arbitrated (base, quality) pair' if m[0] else f'Fragment.get_consensus on a model mate pair: {m[2]}', key='fragment-calls-arbitrated', witness=m[2],
                 what='Fragment.get_consensus returns un-arbitrated per-mate calls')
        return
    env = {}
    for a in walk_no_nested(f):
        if isinstance(a, ast.Assign):
            for t in a.targets:
                for n_ in ast.walk(t):
                    if isinstance(n_, ast.Name):
                        env.setdefault(n_.id, []).append(a.value)
    rets = [r for r in walk_no_nested(f) if isinstance(r, ast.Return) and r.value is not None]
    ctx.need('C13-R7', len(rets), 1, 'returns of Fragment.get_consensus')
    bad, unsure = [], []
    for r in rets:
        vals = [r.value]
        if isinstance(r.value, ast.Name):
            vals = env.get(r.value.id, [r.value])
        for v in vals:
            if isinstance(v, ast.DictComp):
                inner = v.value
                if isinstance(inner, ast.Call) and last_name(dotted(inner.func) or '') == 'pick_best_base_call':
                    continue
                unsure.append((r, v))
            elif (isinstance(v, ast.Dict) and not v.keys) or (isinstance(v, ast.Call) and dotted(v.func) == 'dict' and not v.args and not v.keywords):
                continue
            elif isinstance(v, ast.Call) and last_name(dotted(v.func) or '') == 'get_consensus_dictionaries' or (isinstance(v, ast.Subscript) and isinstance(v.value, ast.Call)
                                                                                                             and last_name(dotted(v.value.func) or '') == 'get_consensus_dictionaries'):
                bad.append((r, v))
            else:
                unsure.append((r, v))
    for r, v in bad[:1]:
        ctx.emit('C13-R7', False, FRAGMENT, r, f'Fragment.get_consensus returns `{src(r.value)[:50]}`, a per-mate dictionary of get_consensus_dictionaries: its records are not (base, quality) pairs, '
                 f'Molecule.get_consensus cannot unpack them (ValueError, swallowed) and the fragment casts no vote', key='fragment-calls-arbitrated', what='Fragment.get_consensus returns un-arbitrated per-mate calls')
    if not bad:
        ctx.emit('C13-R7', not unsure, FRAGMENT, f, f'{len(rets)} return(s): every value is a pick_best_base_call result' if not unsure else f'cannot tell the shape of `{src(unsure[0][1])[:60]}`',
                 key='fragment-calls-arbitrated', undecided=bool(unsure))


@rule('C13', 'C13-R8', 'the caller decides which bases may vote: the options of Fragment.get_consensus that have a parameter of the same name in '
                       'get_consensus_dictionaries (dove_safe, only_include_refbase, ...) are forwarded as given, not combined with fragment state (a mate-overlap '
                       'restriction that silently switches itself off lets bases outside the safe span vote)')
def r8(ctx):
    f = ctx.fn(FRAGMENT, 'Fragment.get_consensus')
    params = {a.arg for a in f.args.args + f.args.kwonlyargs}
    calls = [c for c in walk_no_nested(f) if isinstance(c, ast.Call) and last_name(dotted(c.func) or '') == 'get_consensus_dictionaries']
    ctx.need('C13-R8', len(calls), 1, 'calls of get_consensus_dictionaries in Fragment.get_consensus')
    bad = []
    n = 0
    for c in calls:
        for k in c.keywords:
            if k.arg in params:
                n += 1
                v = k.value
                if isinstance(v, ast.Name):
                    dd = [a.value for a in walk_no_nested(f) if isinstance(a, ast.Assign) and len(a.targets) == 1 and src(a.targets[0]) == v.id]
                    if v.id != k.arg and len(dd) == 1:
                        v = dd[0]
                if not (isinstance(v, ast.Name) and v.id == k.arg):
                    bad.append((c, k, v))
    ctx.need('C13-R8', n, 1, 'options forwarded by name')
    for c, k, v in bad[:2]:
        ctx.emit('C13-R8', False, FRAGMENT, c, f'Fragment.get_consensus forwards `{k.arg}={src(v)[:60]}` instead of the `{k.arg}` it was given: the restriction the caller asked for is not '
                 f'applied to every fragment', key=f'option-forwarded:{k.arg}', what=f'Fragment.get_consensus alters the option {k.arg} before forwarding it')
    if not bad:
        ctx.emit('C13-R8', True, FRAGMENT, calls[0], f'{n} option(s) forwarded to get_consensus_dictionaries as given', key='option-forwarded')


@rule('C13', 'C13-R9', 'the majority vote as a whole, run by the abstract interpreter (numpy values) on model molecules on every check: 1-4 fragments with calls A / C / G / N / none and two '
                       'qualities, molecules wider than any table and deeper than any narrow counter in the code, a fragment whose extraction fails, a molecule with nothing to report - the '
                       'consensus is the strict majority, ties and N-only positions are absent, no exception escapes')
def r9(ctx):
    f = ctx.fn(MOLECULE, FN)
    m = consensus_model(ctx, full=False)
    if m is None:
        ctx.emit('C13-R9', True, MOLECULE, f, 'Molecule.get_consensus uses constructs outside the interpreted subset: decided by the structural rules only', key='consensus-model', nontrivial=False)
        return
    ok, n, wit = m
    ctx.counters['interpreted_cases'] += n
    ctx.emit('C13-R9', ok, MOLECULE, f, f'{n} model molecules: the consensus is the strict majority call everywhere' if ok else f'model molecule {wit}', key='consensus-model', witness=wit,
             what='Molecule.get_consensus: the reported consensus is not the strict majority call (or the call fails) on a model molecule')


META = {
    'text': ('Decides clause-level necessary conditions: both returns select positions and bases with the same mask, and that mask equals "maximum vote '
             'attained exactly once" on every abstract vote row in {0..3}^5 (numpy idioms interpreted row-wise); N calls never reach the vote update; each '
             'call adds exactly 1 to the counter of its base; the accumulator is only incremented and never read in the loop and a failing fragment is '
             'skipped inside the loop (=> independence of insertion order and invariance under duplicating all fragments, given the mask); mate arbitration '
             'equals "higher quality wins, tie with different bases -> N, lone quality-0 call kept" on all abstract call pairs. Does NOT decide per-read '
             'base extraction (pysam) or dove-tail window arithmetic.'),
    'technique': 'static analysis: row-wise abstract evaluation of the numpy tie mask over an enumerated vote domain, dominator checks of the vote update, exception-containment CFG check, exhaustive abstract-case evaluation of the pure arbitration helper; row evaluation of the tie mask / majority step on every vote row in {0..3}^5; small-scope abstract execution of Molecule.get_consensus (numpy values) on model molecules of 1-4 fragments, two qualities, and molecules wider than any table size in the code, where the structural reading cannot follow',
    'design_ref': 'DESIGN.md section 5, C13',
}


from . import shared as _shared
_shared.register('C13', 'C13')
