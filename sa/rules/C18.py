"""C18 - allele lookups agree with the VCF in every loading mode (structural clauses)."""
import ast
import itertools

from ..core import rule
from ..index import AnalysisError, dotted, src, walk_no_nested, names_in
from ..cfg import CFG, UNK
from ..util import node_calls, own_expr, explore, mk_atoms, cfg_nodes_containing, reach_conds, pred_is
from .slots import ALLELES
from .C01 import flatten

CLS = 'AlleleResolver'


def methods(ctx):
    c = ctx.ix.cls(ALLELES, CLS)
    return {m.name: m for m in c.body if isinstance(m, ast.FunctionDef)}


def self_calls(f):
    return [c for c in walk_no_nested(f) if isinstance(c, ast.Call) and isinstance(c.func, ast.Attribute) and isinstance(c.func.value, ast.Name) and c.func.value.id == 'self']


@rule('C18', 'C18-R1', 'all loading modes obtain their content from one site-selection function: the constructor (eager) and both lookups (lazy) '
                       'call fetchChromosome; the cache is read and written only from there')
def r1(ctx):
    ms = methods(ctx)
    callers = {}
    for name, f in ms.items():
        for c in self_calls(f):
            callers.setdefault(c.func.attr, set()).add(name)
    fc = callers.get('fetchChromosome', set())
    ok = {'__init__', 'getAllelesAt', 'has_location'} <= fc
    ctx.emit('C18-R1', ok, ALLELES, ms['fetchChromosome'], f'fetchChromosome is called from {sorted(fc)}', key='single-source')
    # helpers that are themselves only reachable from fetchChromosome count as part of it (also the leftover definitions of helpers whose calls were
    # written out into fetchChromosome by the canonicalisation)
    inlined_into = {}
    for c_, h_, k_ in (ctx.ix.module(ALLELES).inlined or []):
        if c_:
            inlined_into.setdefault(str(h_).split('.')[-1].split(':')[-1], set()).add(str(c_).split('.')[-1])
    for h_, cs_ in inlined_into.items():
        callers.setdefault(h_, set()).update(cs_)
    inside = {'fetchChromosome'}
    grew = True
    while grew:
        grew = False
        for name in ms:
            if name not in inside and callers.get(name) and callers[name] <= inside:
                inside.add(name)
                grew = True
    for m in ('read_cached', 'write_cache'):
        cs = callers.get(m, set())
        ctx.emit('C18-R1', bool(cs) and cs <= inside and m not in callers.get('__init__', set()), ALLELES, ms[m], f'{m} is called only from {sorted(cs)} (within fetchChromosome)', key=f'cache-io-callers:{m}')
    # lazy lookups: fetchChromosome(self.vcffile, chrom, clear=True) runs iff lazy loading is on and the contig is not loaded - decided on the
    # paths of the function for the four combinations, whatever the shape of the guard
    import itertools
    for m in ('getAllelesAt', 'has_location'):
        f = ms[m]
        chrom = f.args.args[1].arg
        good = True
        sig = set()
        for lazy, absent in itertools.product((True, False), repeat=2):
            rs = explore(f.body, mk_atoms({'self.lazyLoad': lazy, f'{chrom} in self.locationToAllele': not absent}), exceptions=False)
            fetches = {tuple(c for c in r['calls'] if c.startswith('self.fetchChromosome(')) for r in rs}
            want = {(f'self.fetchChromosome(self.vcffile, {chrom}, clear=True)',)} if (lazy and absent) else {()}
            sig |= {x for t_ in fetches for x in t_}
            if fetches != want:
                good = False
        ctx.emit('C18-R1', good, ALLELES, f, f'{m}: fetches iff lazy loading and the contig is absent -> {sorted(sig)}', key=f'lazy-fetch:{m}')
    # eager: fetch unless lazy
    init = ms['__init__']
    calls = [c for c in walk_no_nested(init) if isinstance(c, ast.Call) and src(c.func) == 'self.fetchChromosome']
    ok = False
    if len(calls) == 1:
        # every path through the constructor (plain, non-"ugly" mode): the contig is fetched iff the local that is stored as self.lazyLoad is
        # False at the end of the path - wherever the test sits (wrapping if, guard clause with an early return)
        ok = True
        try:
            for lazy in (True, False):
                # the local whose final value is stored as self.lazyLoad (the parameter itself, or a local derived from it)
                stored = {src(s_.value) for s_ in walk_no_nested(init) if isinstance(s_, ast.Assign) and src(s_.targets[0]) == 'self.lazyLoad' and isinstance(s_.value, ast.Name)}
                lz = sorted(stored)[0] if len(stored) == 1 else 'lazyLoad'
                rs = [r for r in explore(init.body, mk_atoms({'uglyMode': False, 'vcffile is None': False, 'use_cache': False}), env0={'lazyLoad': lazy, 'uglyMode': False, 'use_cache': False}, max_paths=20000)
                      if r['kind'] in ('fall', 'return')]
                ok = ok and bool(rs)
                for r in rs:
                    final = r['consts'].get(lz, UNK)
                    called = any(c.startswith('self.fetchChromosome(') for c in r['calls'])
                    if final is UNK or called != (not final):
                        ok = False
        except AnalysisError:
            ok = False
        # the local tested is the final value stored in self.lazyLoad (C18-R2 checks the attribute)
    ctx.emit('C18-R1', ok, ALLELES, calls[0] if calls else init, 'constructor fetches eagerly iff lazy loading is off (final value of the local)', key='eager-fetch')
    # lookups read the same structure the fetch fills: decision table over (contig loaded, position known, base known)
    g = ms['getAllelesAt']
    a = [x.arg for x in g.args.args]
    entry = f'self.locationToAllele[{a[1]}][{a[2]}][{a[3]}]'
    ok = True
    keys = [a[1], a[2], a[3]]

    def absval(e, env, present):
        """abstract value of an expression over the nested table: ('p', d) = the object d levels down (0 = the table itself), 'NONE', or UNK"""
        if isinstance(e, ast.Constant):
            return 'NONE' if e.value is None else UNK
        if isinstance(e, ast.Name):
            return env.get(e.id, UNK)
        if src(e) == 'self.locationToAllele':
            return ('p', 0)
        if isinstance(e, ast.Subscript):
            v = absval(e.value, env, present)
            if isinstance(v, tuple) and v[1] < 3 and src(e.slice) == keys[v[1]]:
                return ('p', v[1] + 1) if present[v[1]] else 'KEYERROR'
            return UNK
        if isinstance(e, ast.Call) and isinstance(e.func, ast.Attribute) and e.func.attr == 'get' and 1 <= len(e.args) <= 2:
            v = absval(e.func.value, env, present)
            if isinstance(v, tuple) and v[1] < 3 and src(e.args[0]) == keys[v[1]]:
                if present[v[1]]:
                    return ('p', v[1] + 1)
                return 'NONE' if len(e.args) == 1 else absval(e.args[1], env, present)
            return UNK
        if isinstance(e, ast.IfExp):
            t = truth(e.test, env, present)
            return UNK if t is UNK else absval(e.body if t else e.orelse, env, present)
        return UNK

    def truth(t, env, present):
        if isinstance(t, ast.BoolOp):
            vals = [truth(v, env, present) for v in t.values]
            if isinstance(t.op, ast.And):
                # left-to-right: a decided False stops the evaluation
                for v in vals:
                    if v is False:
                        return False
                    if v is UNK:
                        return UNK
                return True
            for v in vals:
                if v is True:
                    return True
                if v is UNK:
                    return UNK
            return False
        if isinstance(t, ast.UnaryOp) and isinstance(t.op, ast.Not):
            v = truth(t.operand, env, present)
            return UNK if v is UNK else (not v)
        if isinstance(t, ast.Compare) and len(t.ops) == 1:
            op, l_, r_ = t.ops[0], t.left, t.comparators[0]
            if isinstance(op, (ast.Is, ast.IsNot)) and isinstance(r_, ast.Constant) and r_.value is None:
                v = absval(l_, env, present)
                if v is UNK:
                    return UNK
                return (v == 'NONE') == isinstance(op, ast.Is)
            if isinstance(op, (ast.In, ast.NotIn)):
                v = absval(r_, env, present)
                if isinstance(v, tuple) and v[1] < 3 and src(l_) == keys[v[1]]:
                    return present[v[1]] == isinstance(op, ast.In)
                return UNK
        if src(t) == 'self.lazyLoad':
            return False
        v = absval(t, env, present)
        if v == 'NONE':
            return False
        if isinstance(v, tuple):
            return UNK          # an empty mapping is falsy: undecided
        return UNK
    cfg = CFG(g.body, exceptions=False)
    for c_, p_, b_ in itertools.product((True, False), repeat=3):
        if (not c_ and (p_ or b_)) or (not p_ and b_):
            continue        # combinations that cannot occur (position known without contig)
        present = (c_, p_, b_)

        def step(state, node, label, present=present):
            env = state
            if node.kind == 'test' and label in ('true', 'false') and isinstance(node.ast, ast.If):
                v = truth(node.ast.test, env, present)
                if v is not UNK and bool(v) != (label == 'true'):
                    return None
            if node.kind == 'stmt' and isinstance(node.ast, ast.Assign) and len(node.ast.targets) == 1 and isinstance(node.ast.targets[0], ast.Name):
                env = dict(env)
                env[node.ast.targets[0].id] = absval(node.ast.value, env, present)
            return env
        rets = set()
        for p__, env in cfg.paths(state0={}, step=step):
            last = cfg.nodes[p__[-1][0]]
            kind = last.info
            if kind == 'return':
                rstmt = [cfg.nodes[nid].ast for nid, _l in p__ if isinstance(cfg.nodes[nid].ast, ast.Return)][-1]
                rets.add(absval(rstmt.value, env, present) if rstmt.value is not None else 'NONE')
            else:
                rets.add('NONE' if kind == 'fall' else kind)
        want = {('p', 3)} if (c_ and p_ and b_) else {'NONE'}
        ctx.counters['abstract_cases'] += 1
        ok = ok and rets == want
    ctx.emit('C18-R1', ok, ALLELES, g, f'getAllelesAt returns locationToAllele[chrom][pos][base] or None when contig / position / base are absent', key='lookup-returns')


@rule('C18', 'C18-R2', 'flags consulted by the lookups hold the final value computed by the constructor: no attribute is a snapshot of a local '
                       'that is re-defined afterwards')
def r2(ctx):
    ms = methods(ctx)
    init = ms['__init__']
    read_elsewhere = set()
    for name, f in ms.items():
        if name == '__init__':
            continue
        for n in walk_no_nested(f):
            if isinstance(n, ast.Attribute) and isinstance(n.value, ast.Name) and n.value.id == 'self' and isinstance(n.ctx, ast.Load):
                read_elsewhere.add(n.attr)
    cfg = CFG(init.body, exceptions=False)
    stale = {}
    n_paths = 0

    def step(state, node, label):
        snap = dict(state or {})
        a = node.ast
        if node.kind == 'stmt' and isinstance(a, ast.Assign):
            for t in a.targets:
                if isinstance(t, ast.Attribute) and isinstance(t.value, ast.Name) and t.value.id == 'self' and isinstance(a.value, ast.Name):
                    snap[t.attr] = (a.value.id, False)
                elif isinstance(t, ast.Attribute) and isinstance(t.value, ast.Name) and t.value.id == 'self':
                    snap.pop(t.attr, None)
                elif isinstance(t, ast.Name):
                    for attr, (loc, dirty) in list(snap.items()):
                        if loc == t.id:
                            snap[attr] = (loc, True)
        return snap

    for p, st in cfg.paths(state0={}, step=step, max_paths=200000):
        if cfg.nodes[p[-1][0]].info not in ('fall', 'return'):
            continue
        n_paths += 1
        for attr, (loc, dirty) in (st or {}).items():
            if dirty and attr in read_elsewhere:
                stale.setdefault(attr, loc)
    ctx.counters['paths_enumerated'] += n_paths
    ctx.need('C18-R2', n_paths, 4, 'paths through AlleleResolver.__init__')
    if not stale:
        ctx.emit('C18-R2', True, ALLELES, init, f'{n_paths} constructor paths: every attribute copied from a local and read by other methods holds the local\'s final value', key='no-stale-snapshot')
    for attr, loc in stale.items():
        ctx.emit('C18-R2', False, ALLELES, init, f'self.{attr} is a snapshot of the local `{loc}`, which is re-defined later on some path without updating the attribute; '
                 f'other methods read self.{attr}', key=f'stale-snapshot:{attr}', what=f'AlleleResolver.__init__: self.{attr} snapshotted before `{loc}` is adjusted')


def cache_name_model(ctx):
    """the cache file name fetchChromosome computes, obtained by running the method under the interpreter with caching on (no cache file present) for every combination of
    phased / sample selection / ignored conversions / region start / region end: two configurations that select different sites must not share a cache file.
    (ok, cases, witness) or None outside the interpreted subset."""
    from ..consteval import module_scope, Evaluator, Instance, Unfoldable, Raised
    try:
        env = module_scope(ctx.ix, ALLELES)
        cls = env['AlleleResolver']
        names = {}
        n = 0
        for phased, select, ignore, rs, re_ in itertools.product((True, False), (None, ('S1',), ('S1', 'S2')), (None, (('C', 'T'),), (('C', 'T'), ('G', 'A'))), (None, 500), (None, 900)):
            n += 1
            seen = []

            def hook(ev, call, env_, seen=seen):
                d = dotted(call.func) or ''
                if d.split('.')[-1] == 'VariantFile':
                    return Instance(attrs={'model': 'vcf'})
                if isinstance(call.func, ast.Attribute) and call.func.attr == 'fetch':
                    return []
                if d in ('os.path.abspath',):
                    return ev.ev(call.args[0], env_)
                if d in ('os.path.exists',):
                    return False
                if d in ('os.makedirs', 'print'):
                    return None
                if d in ('self.write_cache', 'self.read_cached'):
                    seen.append(ev.ev(call.args[0], env_))
                    return None
                return NotImplemented
            e = dict(env)
            table = Evaluator(e, budget=2000).ev(ast.parse('get_allele_dict()', mode='eval').body, e)
            res = Instance(cls, attrs={'locationToAllele': table, 'phased': phased, 'select_samples': None if select is None else set(select), 'ignore_conversions': None if ignore is None else set(ignore),
                                       'use_cache': True, 'verbose': False, 'region_start': rs, 'region_end': re_, 'vcffile': 'model.vcf.gz', 'lazyLoad': False})
            e['res'] = res
            Evaluator(e, budget=100000, call_hook=hook).ev(ast.parse("res.fetchChromosome('model.vcf.gz', 'chr1')", mode='eval').body, e)
            if len(seen) != 1:
                return None
            cfg = {'phased': phased, 'selected samples': select, 'ignored conversions': ignore, 'region start': rs, 'region end': re_}
            if seen[0] in names and names[seen[0]] != cfg:
                return (False, n, {'cache file': seen[0], 'configuration A': names[seen[0]], 'configuration B': cfg})
            names[seen[0]] = cfg
        return (True, n, None)
    except (Unfoldable, Raised):
        return None
    except Exception:
        return None



@rule('C18', 'C18-R3', 'cache key completeness: every configuration field read while computing a contig\'s content is part of the cache file name')
def r3(ctx):
    ms = methods(ctx)
    f = ms['fetchChromosome']
    # the name itself, computed by the interpreter for 72 configurations: no two of them share a cache file
    cm = cache_name_model(ctx)
    if cm is not None:
        ctx.counters['interpreted_cases'] = ctx.counters.get('interpreted_cases', 0) + cm[1]
        ctx.emit('C18-R3', cm[0], ALLELES, f, f'{cm[1]} configurations (phased x selection x ignored conversions x region start x region end) get {cm[1]} different cache file names' if cm[0] else
                 f'two configurations that select different sites share one cache file: {cm[2]}', key='cache-name-injective', witness=cm[2],
                 what='fetchChromosome: configurations with different content share a cache file')
    # the cache file name is whatever is handed to read_cached(); its key fields are the configuration fields in its backward slice
    # (data and control dependences), however the name is spelled or assembled
    rc = [c for c in walk_no_nested(f) if isinstance(c, ast.Call) and isinstance(c.func, ast.Attribute) and c.func.attr == 'read_cached' and c.args]
    if not rc:
        raise AnalysisError('fetchChromosome: read_cached call not found')
    mod = ctx.ix.module(ALLELES)
    relevant = set(names_in(rc[0].args[0]))
    cache_names = set(relevant)
    key_fields = {n.attr for n in ast.walk(rc[0].args[0]) if isinstance(n, ast.Attribute) and isinstance(n.value, ast.Name) and n.value.id == 'self'}
    MUT = {'append', 'extend', 'add', 'insert', 'update'}

    def as_update(st_):
        """`X.append(v)` and friends on a local are an augmented assignment of X (its content then also depends on v)"""
        if isinstance(st_, ast.Expr) and isinstance(st_.value, ast.Call) and isinstance(st_.value.func, ast.Attribute) and st_.value.func.attr in MUT \
                and isinstance(st_.value.func.value, ast.Name):
            return ast.copy_location(ast.AugAssign(target=ast.Name(id=st_.value.func.value.id, ctx=ast.Store()), op=ast.Add(),
                                                   value=ast.Tuple(elts=list(st_.value.args) + [k.value for k in st_.value.keywords], ctx=ast.Load())), st_)
        return st_
    changed = True
    while changed:
        changed = False
        for s0 in walk_no_nested(f):
            s = as_update(s0)
            if isinstance(s, (ast.Assign, ast.AugAssign)):
                tg = s.targets[0] if isinstance(s, ast.Assign) else s.target
                if isinstance(tg, ast.Name) and tg.id in relevant:
                    exprs = [s.value]
                    p_ = mod.parent.get(s0)
                    while p_ is not None and p_ is not f:
                        if isinstance(p_, ast.If):
                            exprs.append(p_.test)
                        p_ = mod.parent.get(p_)
                    for e in exprs:
                        for n in ast.walk(e):
                            if isinstance(n, ast.Attribute) and isinstance(n.value, ast.Name) and n.value.id == 'self' and n.attr not in key_fields:
                                key_fields.add(n.attr)
                                changed = True
                            if isinstance(n, ast.Name) and n.id not in relevant and n.id != 'self':
                                relevant.add(n.id)
                                changed = True
    # compute region: statements after the cache-hit return
    config = set()
    init_params = {a.arg for a in ms['__init__'].args.args}
    started = False
    for s in f.body:
        if started:
            for n in walk_no_nested(s):
                if isinstance(n, ast.Attribute) and isinstance(n.value, ast.Name) and n.value.id == 'self' and isinstance(n.ctx, ast.Load) and n.attr in init_params:
                    config.add(n.attr)
        if isinstance(s, ast.If) and any(x is rc[0] for x in ast.walk(s)):
            started = True
    config -= {'verbose', 'use_cache'}
    ctx.need('C18-R3', len(config), 3, 'configuration fields read on the compute path')
    for fld in sorted(config):
        ok = fld in key_fields
        ctx.emit('C18-R3', ok, ALLELES, f, f'configuration field self.{fld} influences the cached content and is ' + ('part of' if ok else 'NOT part of') + ' the cache file name',
                 key=f'cache-key:{fld}', what=f'fetchChromosome: cache file name omits {fld}, which changes the cached content (a cache written under one setting is served under another)')
    # path-sensitive: on EVERY path to the cache lookup the name still depends on the contig and on each of these fields (a branch that
    # re-assigns the name from a constant loses everything appended before)
    chromp = f.args.args[2].arg if len(f.args.args) > 2 else 'chrom'
    top_idx = next(k for k, s_ in enumerate(f.body) if any(x is rc[0] for x in ast.walk(s_)))
    cfg = CFG(f.body[:top_idx + 1], exceptions=False)
    stop = set(cfg_nodes_containing(cfg, rc[0]))
    arrivals = []

    def attrs_and_names(e):
        out = set()
        for n in ast.walk(e):
            if isinstance(n, ast.Attribute) and isinstance(n.value, ast.Name) and n.value.id == 'self':
                out.add('self.' + n.attr)
            elif isinstance(n, ast.Name) and n.id != 'self':
                out.add(n.id)
        return out

    def step(state, node, label):
        deps, ctl = state
        if node.id in stop:
            arrivals.append(deps)
            return None
        if node.kind == 'test' and label in ('true', 'false'):
            ctl = ctl | frozenset(attrs_and_names(node.ast.test))
        nast = as_update(node.ast) if node.kind == 'stmt' else node.ast
        if node.kind == 'stmt' and isinstance(nast, (ast.Assign, ast.AugAssign)):
            tg = nast.targets[0] if isinstance(nast, ast.Assign) else nast.target
            if isinstance(tg, ast.Name):
                new = set(ctl)
                for x in attrs_and_names(nast.value):
                    new |= deps.get(x, frozenset({x}))
                if isinstance(nast, ast.AugAssign):
                    new |= deps.get(tg.id, frozenset())
                deps = dict(deps)
                deps[tg.id] = frozenset(new)
        return (deps, ctl)
    cfg.paths(state0=({}, frozenset()), step=step, max_paths=20000)
    argnames = names_in(rc[0].args[0])
    lost = []
    for deps in arrivals:
        have = set()
        for a_ in argnames:
            have |= deps.get(a_, frozenset({a_}))
        miss = [x for x in [chromp] + ['self.' + c_ for c_ in sorted(config & key_fields)] if x not in have]
        if miss:
            lost.append(miss)
    ctx.counters['paths_enumerated'] += len(arrivals)
    ctx.emit('C18-R3', bool(arrivals) and not lost, ALLELES, rc[0], f'on all {len(arrivals)} paths to the cache lookup the file name depends on the contig and on every key field' if arrivals and not lost else
             f'on some path the cache file name does not depend on {lost[0] if lost else None}: different contigs / settings share one cache file', key='cache-key:every-path',
             what='fetchChromosome: on some path the cache file name loses the contig or a configuration field')
    ctx.info(f'cache file name is built from chrom + {sorted(key_fields)}; compute path reads {sorted(config)}')


def _holds_for_nonnegative(t_, pol, var):
    """the condition (t_ with polarity pol) holds for every integer value >= 0 of var (evaluated on 0..3)"""
    from ..domains import eval_pred
    try:
        for v in (0, 1, 2, 3):
            r_ = bool(eval_pred(t_, {'p': v}, lambda x: 'p' if src(x) == var else None))
            if r_ != pol:
                return False
        return True
    except Exception:
        return False


@rule('C18', 'C18-R4', 'cache writer and reader agree on the record format; the cache is written atomically (temp file + rename) because an '
                       'existing cache file is trusted and write failures are swallowed')
def r4(ctx):
    ms = methods(ctx)
    w, r = ms['write_cache'], ms['read_cached']
    wr = [c for c in walk_no_nested(w) if isinstance(c, ast.Call) and isinstance(c.func, ast.Attribute) and c.func.attr == 'write' and c.args]
    if len(wr) != 1:
        raise AnalysisError('write_cache: expected one write call')
    pieces = flatten(wr[0].args[0], {}) or []
    lit = ''.join(v for k, v in pieces if k == 'lit')
    nvals = sum(1 for k, v in pieces if k == 'val')
    joins = [c for c in ast.walk(wr[0].args[0]) if isinstance(c, ast.Call) and isinstance(c.func, ast.Attribute) and c.func.attr == 'join' and isinstance(c.func.value, ast.Constant)]
    sep_w = joins[0].func.value.value if joins else None
    sp = [c for c in walk_no_nested(r) if isinstance(c, ast.Call) and isinstance(c.func, ast.Attribute) and c.func.attr == 'split' and c.args and isinstance(c.args[0], ast.Constant)]
    field_split = [c for c in sp if c.args[0].value == '\t']
    sample_split = [c for c in sp if c.args[0].value != '\t']
    unpack = [s for s in walk_no_nested(r) if isinstance(s, ast.Assign) and isinstance(s.targets[0], ast.Tuple) and field_split and any(x is field_split[0] for x in ast.walk(s.value))]
    ok = lit.count('\t') == 2 and lit.endswith('\n') and nvals == 3 and len(field_split) == 1 and len(unpack) == 1 and len(unpack[0].targets[0].elts) == 3 \
        and sample_split and sample_split[0].args[0].value == sep_w
    ctx.emit('C18-R4', ok, ALLELES, wr[0], f'writer: {nvals} tab separated fields, samples joined by {sep_w!r}; reader: unpacks {len(unpack[0].targets[0].elts) if unpack else 0} fields, '
             f'samples split on {sample_split[0].args[0].value if sample_split else None!r}', key='cache-format')
    # the writer stores every real position: a filter on the way to the write may only exclude negative positions (the "contig loaded"
    # placeholder lives at -1; stored positions are 0-based, so 0 is a real site)
    wl = [l for l in walk_no_nested(w) if isinstance(l, ast.For) and any(x is wr[0] for x in ast.walk(l))]
    okw = True
    wdetail = 'no filter between the table and the write'
    if wl:
        outer = wl[0]
        posv = outer.target.id if isinstance(outer.target, ast.Name) else (outer.target.elts[0].id if isinstance(outer.target, ast.Tuple) and isinstance(outer.target.elts[0], ast.Name) else None)
        conds = reach_conds(outer.body, wr[0]) or []
        for t_, pol in conds:
            if posv and names_in(t_) <= {posv}:
                keep_all_real = pred_is(t_ if pol else ast.UnaryOp(op=ast.Not(), operand=t_), lambda e: True, {posv: 'p'}, consts=(0, 1)) or \
                    _holds_for_nonnegative(t_, pol, posv)
                if not keep_all_real:
                    okw = False
                    wdetail = f'the writer skips positions by `{"" if pol else "not "}{src(t_)}`: a real 0-based position (0 = first base of the contig) is not written'
            else:
                okw = False
                wdetail = f'the writer filters entries by `{src(t_)}` (not decided)'
    ctx.emit('C18-R4', okw, ALLELES, wr[0], f'writer: {wdetail}', key='writer-writes-every-position', what='write_cache drops real positions from the cache file')
    st = [s for s in walk_no_nested(r) if isinstance(s, ast.Assign) and src(s.targets[0]).startswith('self.locationToAllele[')]
    # the position key of the stored entry is int(<first field of the record>)
    ints = False
    if len(st) == 1 and unpack:
        tgt = st[0].targets[0]
        key_pos = tgt.value.slice if isinstance(tgt, ast.Subscript) and isinstance(tgt.value, ast.Subscript) else None
        first_field = src(unpack[0].targets[0].elts[0])
        if isinstance(key_pos, ast.Name):
            defs = [a_ for a_ in walk_no_nested(r) if isinstance(a_, ast.Assign) and len(a_.targets) == 1 and src(a_.targets[0]) == key_pos.id]
            ints = bool(defs) and all(isinstance(a_.value, ast.Call) and src(a_.value.func) == 'int' and len(a_.value.args) == 1 and src(a_.value.args[0]) == first_field for a_ in defs)
        elif key_pos is not None:
            ints = src(key_pos) == f'int({first_field})'
    stored = st[0].value if len(st) == 1 else None
    if isinstance(stored, ast.Name):
        # the stored value is a local: its definitions (other than the record unpack) all have to build the set
        vdefs = [a_ for a_ in walk_no_nested(r) if isinstance(a_, ast.Assign) and len(a_.targets) == 1 and src(a_.targets[0]) == stored.id]
        sets = bool(vdefs) and all(isinstance(a_.value, ast.Call) and src(a_.value.func) == 'set' for a_ in vdefs)
    else:
        sets = stored is not None and 'set(' in src(stored)
    ok = ints and len(st) == 1 and sets
    ctx.emit('C18-R4', ok, ALLELES, r, 'reader restores integer positions and sample sets', key='cache-types')
    # atomic write
    path = w.args.args[1].arg
    opens = [c for c in walk_no_nested(w) if isinstance(c, ast.Call) and dotted(c.func) in ('gzip.open', 'open') and c.args]
    ren = [c for c in walk_no_nested(w) if isinstance(c, ast.Call) and dotted(c.func) in ('os.rename', 'os.replace', 'shutil.move') and len(c.args) == 2]
    fc = ms['fetchChromosome']
    trusts = any(isinstance(s, ast.If) and 'os.path.exists(cache_file_name)' in src(s.test) and 'read_cached' in src(s) and any(isinstance(x, ast.Return) for x in s.body) for s in walk_no_nested(fc))
    swallowed = any(isinstance(t, ast.Try) and 'write_cache' in src(t) and any(not any(isinstance(x, ast.Raise) for x in walk_no_nested(h)) for h in t.handlers) for t in walk_no_nested(fc))
    direct = any(src(c.args[0]) == path for c in opens)
    ok_atomic = bool(opens) and not direct and len(ren) == 1 and src(ren[0].args[1]) == path and src(ren[0].args[0]) == src(opens[0].args[0]) and ren[0].lineno > opens[0].lineno
    needed = trusts and swallowed
    ctx.emit('C18-R4', ok_atomic or not needed, ALLELES, w, ('cache is written to a temporary file and renamed into place' if ok_atomic else
             'cache is written directly to its final path' + (' although fetchChromosome trusts any existing cache file and swallows write errors: an interrupted write is later read as a complete cache' if needed else '')),
             key='cache-atomic-write', what='write_cache writes the final cache path directly (a partial file is trusted later)')


def _site_oracle(rec, phased, select, ignore):
    """what the property prescribes for one VCF record: None (not stored) or {base: samples}"""
    ref, alts, samples = rec['ref'], rec['alts'], rec['samples']
    if phased:
        if not samples:
            return {ref: {'r'}, alts[0]: {'a'}}
        bases, mono, multi, assigned = {}, False, False, set()
        for name, alleles in samples.items():
            if select is not None and name not in select:
                continue
            for b in alleles:
                if b is None:
                    mono = True
                elif len(b) == 1:
                    bases.setdefault(b, set()).add(name)
                    assigned.add(name)
                else:
                    multi = True
        bad = multi or (select is not None and bool(bases) and len(assigned) != len(select))
        if mono and bases:
            bad = False
        elif len(bases) < 2:
            bad = True
        used = bool(bases)
    else:
        alleles = (ref,) + tuple(alts)
        if not all(len(a) == 1 for a in alleles):
            return None
        bases = {}
        for label, b in zip('UVWXYZ', alleles):
            bases.setdefault(b, set()).add(label)
        bad, used = False, True
    if not bad and ignore is not None:
        bad = any((ref, b) in ignore for b in bases)
    return bases if used and not bad else None


MODEL_RECORDS = [
    {'pos': 11, 'ref': 'A', 'alts': ('G',), 'samples': {'S1': ('A', 'A'), 'S2': ('G', 'G'), 'S3': ('A', 'G')}},
    {'pos': 21, 'ref': 'C', 'alts': ('T',), 'samples': {'S1': ('C', 'C'), 'S2': ('T', 'T'), 'S3': ('C', 'T')}},                 # an ignored conversion
    {'pos': 31, 'ref': 'C', 'alts': ('CGT',), 'samples': {'S1': ('C', 'C'), 'S2': ('CGT', 'CGT'), 'S3': ('C', 'CGT')}},         # indel whose allele is a piece of ACGT
    {'pos': 41, 'ref': 'AT', 'alts': ('A',), 'samples': {'S1': ('AT', 'AT'), 'S2': ('A', 'A'), 'S3': ('AT', 'A')}},             # deletion
    {'pos': 51, 'ref': 'G', 'alts': ('A',), 'samples': {'S1': ('G', 'G'), 'S2': (None, None), 'S3': ('G', 'G')}},               # missing call next to calls
    {'pos': 61, 'ref': 'T', 'alts': ('C',), 'samples': {'S1': (None, None), 'S2': (None, None), 'S3': (None, None)}},           # nothing called
    {'pos': 71, 'ref': 'T', 'alts': ('C',), 'samples': {'S1': ('T', 'T'), 'S2': ('T', 'T'), 'S3': ('C', 'C')}},                 # S1 and S2 agree
    {'pos': 81, 'ref': 'G', 'alts': ('A', 'T'), 'samples': {'S1': ('G', 'A'), 'S2': ('T', 'T'), 'S3': ('G', 'G')}},             # three alleles, G>A ignored
    {'pos': 91, 'ref': 'A', 'alts': ('C',), 'samples': {'S1': ('A', 'A'), 'S2': ('C', 'AC'), 'S3': ('A', 'C')}},                # one multi-base allele among bases
    {'pos': 101, 'ref': 'T', 'alts': ('G',), 'samples': {'S1': ('T', 'G'), 'S2': (None, 'G'), 'S3': ('T', 'T')}},
    {'pos': 111, 'ref': 'C', 'alts': ('T',), 'samples': {'S1': ('C', 'T'), 'S2': (None, None), 'S3': ('C', 'C')}},               # ignored conversion next to a missing call
    {'pos': 121, 'ref': 'G', 'alts': ('A',), 'samples': {'S1': ('G', 'A'), 'S2': ('A', None), 'S3': (None, 'G')}},
    {'pos': 131, 'ref': 'A', 'alts': ('AC',), 'samples': {'S1': ('A', 'AC'), 'S2': (None, None), 'S3': ('A', 'A')}},             # indel next to a missing call
    {'pos': 141, 'ref': 'C', 'alts': ('G', 'CAA'), 'samples': {'S1': ('C', 'G'), 'S2': ('G', 'G'), 'S3': ('C', 'C')}},           # a listed multi-base allele nobody carries
    {'pos': 151, 'ref': 'T', 'alts': ('A', 'TG'), 'samples': {'S1': ('T', 'A'), 'S2': ('A', 'A'), 'S3': ('TG', 'T')}},           # ... carried by an unselected sample only
]


def site_selection_model(ctx):
    """AlleleResolver.fetchChromosome run by the abstract interpreter on thirteen model VCF records (SNVs, an ignored conversion, indels - one a piece of "ACGT" -, missing calls,
    three alleles) for phased / unphased x no selection / two of three samples / one sample x with and without ignored conversions, and on a file without samples: the
    table holds exactly the sites, bases and samples the property prescribes.  (ok, cases, witness) or None outside the interpreted subset.  Cached per run."""
    if hasattr(ctx, '_site_model'):
        return ctx._site_model
    from ..consteval import module_scope, Evaluator, Instance, Unfoldable, Raised
    ctx._site_model = None
    n = 0
    try:
        env = module_scope(ctx.ix, ALLELES)
        cls = env['AlleleResolver']
        for with_samples in (True, False):
            for phased, select, ignore in itertools.product((True, False), (None, {'S1', 'S2'}, {'S3'}), (None, {('C', 'T'), ('G', 'A')})):
                if not with_samples and (select is not None):
                    continue
                n += 1
                recs = []
                for r in MODEL_RECORDS:
                    samples = {k: Instance(attrs={'alleles': tuple(v)}) for k, v in r['samples'].items()} if with_samples else {}
                    recs.append(Instance(attrs={'chrom': 'chr1', 'contig': 'chr1', 'pos': r['pos'], 'start': r['pos'] - 1, 'ref': r['ref'], 'alts': tuple(r['alts']), 'alleles': (r['ref'],) + tuple(r['alts']),
                                                'samples': samples}))
                vcf = Instance(attrs={'model': 'vcf'})

                def hook(ev, call, env_, recs=recs, vcf=vcf):
                    d = dotted(call.func) or ''
                    if d.split('.')[-1] == 'VariantFile':
                        return vcf
                    if isinstance(call.func, ast.Attribute) and call.func.attr == 'fetch':
                        return list(recs)
                    if d in ('print',):
                        return None
                    return NotImplemented
                e = dict(env)
                table = Evaluator(e, budget=2000).ev(ast.parse('get_allele_dict()', mode='eval').body, e)
                res = Instance(cls, attrs={'locationToAllele': table, 'phased': phased, 'select_samples': None if select is None else set(select), 'ignore_conversions': None if ignore is None else set(ignore),
                                           'use_cache': False, 'verbose': False, 'region_start': None, 'region_end': None, 'vcffile': 'model.vcf.gz', 'lazyLoad': False})
                e['res'] = res
                Evaluator(e, budget=400000, call_hook=hook).ev(ast.parse("res.fetchChromosome('model.vcf.gz', 'chr1')", mode='eval').body, e)
                got = {p_: {b: set(s_) for b, s_ in v_.items()} for p_, v_ in dict(res.attrs['locationToAllele']['chr1']).items() if p_ != -1}
                want = {}
                for r in MODEL_RECORDS:
                    o = _site_oracle(dict(r, samples=r['samples'] if with_samples else {}), phased, select, ignore)
                    if o is not None:
                        want[r['pos'] - 1] = o
                if got != want:
                    p0 = sorted(set(got) ^ set(want) or [p_ for p_ in want if got.get(p_) != want[p_]])[0]
                    rec0 = [r for r in MODEL_RECORDS if r['pos'] - 1 == p0][0]
                    ctx._site_model = (False, n, {'phased': phased, 'selected samples': sorted(select) if select else None, 'ignored conversions': sorted(ignore) if ignore else None, 'file has samples': with_samples,
                                                  'record': f'chr1:{rec0["pos"]} {rec0["ref"]}>{",".join(rec0["alts"])} ' + ' '.join(f'{k}={"|".join(str(x) for x in v)}' for k, v in rec0['samples'].items()),
                                                  'stored': {b: sorted(s_) for b, s_ in got[p0].items()} if p0 in got else None,
                                                  'prescribed': {b: sorted(s_) for b, s_ in want[p0].items()} if p0 in want else None})
                    return ctx._site_model
    except (Unfoldable, Raised, Exception) as e_:
        ctx._site_model_error = f'{type(e_).__name__}: {str(e_)[:100]}'
        return None
    ctx._site_model = (True, n, None)
    return ctx._site_model



@rule('C18', 'C18-R5', 'per-record state: flags deciding whether a site is informative are re-initialised for every VCF record, the conversion '
                       'filter looks at the bases the selected samples carry, and a site is stored iff used and not bad')
def r5(ctx):
    # the structural reading decides; where it cannot follow a restructured record loop the interpreted model of fetchChromosome decides instead (every obligation of this
    # rule is about what ends up in the table, which is what the model compares)
    from ..core import Ctx, VIOLATED, UNDECIDED
    sub = Ctx(ctx.ix, 'C18', ctx.tier)
    err = None
    try:
        _r5_structural(sub)
    except AnalysisError as e_:
        err = e_
    except Exception as e_:
        err = AnalysisError(f'structural reading failed ({type(e_).__name__}: {e_})')
    for k_, v_ in sub.counters.items():
        ctx.counters[k_] = (ctx.counters.get(k_, set()) | v_) if isinstance(v_, set) else ctx.counters.get(k_, 0) + v_
    for k_, v_ in getattr(sub, 'exhaustive', {}).items():
        ctx.exhaustive[k_] = v_
    open_ = [o for o in sub.obligations if o.status in (VIOLATED, UNDECIDED)]
    if err is None and not open_:
        ctx.obligations.extend(sub.obligations)
        return
    m = site_selection_model(ctx)
    if m is None:
        ctx.obligations.extend(sub.obligations)
        if err is not None:
            raise err
        return
    ok, n, wit = m
    f = methods(ctx)['fetchChromosome']
    ctx.counters['interpreted_cases'] = ctx.counters.get('interpreted_cases', 0) + n * len(MODEL_RECORDS)
    if ok:
        ctx.obligations.extend([o for o in sub.obligations if o not in open_])
        ctx.emit('C18-R5', True, ALLELES, f, f'fetchChromosome interpreted on {len(MODEL_RECORDS)} model records x {n} configurations: the table holds exactly the prescribed sites, bases and samples (the structural '
                 f'reading did not follow {len(open_) + (1 if err else 0)} construct(s) of the restructured record loop)', key='site-selection-model')
    else:
        ctx.obligations.extend(sub.obligations)
        ctx.emit('C18-R5', False, ALLELES, f, f'fetchChromosome on model records: {wit}', key='site-selection-model', witness=wit, what='fetchChromosome stores a site / base / sample the property does not prescribe (or misses one)')


def _r5_structural(ctx):
    ms = methods(ctx)
    f = ms['fetchChromosome']
    loops = [l for l in walk_no_nested(f) if isinstance(l, ast.For) and '.fetch(' in src(l.iter)]
    if len(loops) != 1:
        raise AnalysisError('fetchChromosome: record loop not found')
    loop = loops[0]
    # boolean flags assigned constants inside the loop
    flags = {}
    for s in walk_no_nested(loop):
        if isinstance(s, ast.Assign) and isinstance(s.targets[0], ast.Name) and isinstance(s.value, ast.Constant) and isinstance(s.value.value, bool):
            flags.setdefault(s.targets[0].id, []).append(s)
    outside = {}
    for s in walk_no_nested(f):
        if isinstance(s, ast.Assign) and isinstance(s.targets[0], ast.Name) and isinstance(s.value, ast.Constant) and isinstance(s.value.value, bool) \
                and not any(x is s for x in walk_no_nested(loop)):
            outside.setdefault(s.targets[0].id, []).append(s)
    cfg = CFG(loop.body, exceptions=False)
    dom = cfg.dominators()
    # names read in tests / expressions of the loop
    n = 0
    for name in sorted(set(flags) | set(outside)):
        reads = [nd for nd in cfg.nodes if own_expr(nd) is not None and any(isinstance(x, ast.Name) and x.id == name and isinstance(x.ctx, ast.Load) for x in walk_no_nested(own_expr(nd)))]
        if not reads:
            continue
        sets_true = [s for s in flags.get(name, []) if s.value.value is True]
        if not sets_true:
            continue
        n += 1
        inits = set()
        for nd in cfg.nodes:
            if nd.kind == 'stmt' and isinstance(nd.ast, ast.Assign) and src(nd.ast.targets[0]) == name and isinstance(nd.ast.value, ast.Constant) and nd.ast.value.value is False:
                inits.add(nd.id)
        bad = [nd for nd in reads if not (dom[nd.id] & inits)]
        ctx.emit('C18-R5', not bad, ALLELES, sets_true[0], f'flag `{name}` is reset to False in every record before it is read' if not bad else
                 f'flag `{name}` is set inside the record loop but not re-initialised per record before its read at line {bad[0].lineno}: once set it leaks into all later records of the fetch',
                 key=f'per-record-flag:{name}', what=f'fetchChromosome: flag {name} leaks between VCF records')
    ctx.need('C18-R5', n, 1, 'per-record flags')
    # every allele of every considered genotype is examined: the loops over the samples / the alleles of a sample have no early exit
    gl = [l for l in walk_no_nested(loop) if isinstance(l, ast.For) and ('.alleles' in src(l.iter) or '.samples' in src(l.iter))]
    ctx.need('C18-R5', len(gl), 2, 'genotype loops (samples, alleles of a sample)')
    for l in gl:
        brk = [x for x in walk_no_nested(l) if isinstance(x, ast.Break) and not any(isinstance(p_, ast.For) and p_ is not l and any(y is x for y in ast.walk(p_)) for p_ in walk_no_nested(l))]
        ctx.emit('C18-R5', not brk, ALLELES, brk[0] if brk else l, f'loop over `{src(l.iter)[:40]}` visits every element' if not brk else
                 f'loop over `{src(l.iter)[:40]}` stops early (`break`): alleles / samples after a missing allele are never registered', key=f'genotype-loop-complete:{src(l.iter)[:30]}',
                 what='fetchChromosome: a genotype loop has an early exit')
    # the final informativeness decision of the phased branch: monomorphic site with a base -> informative; fewer than two bases -> not;
    # otherwise the verdict reached so far (multi-base allele, unassigned selected sample) stands
    dec = [s_ for s_ in walk_no_nested(loop) if isinstance(s_, ast.If) and 'monomorphic' in names_in(s_.test) and any(isinstance(a_, ast.Assign) and src(a_.targets[0]) == 'bad' for a_ in walk_no_nested(s_))]
    sloops_ = [l for l in walk_no_nested(loop) if isinstance(l, ast.For) and '.samples' in src(l.iter)]
    if len(dec) == 1 and sloops_:
        # the statements that turn what the genotype loops collected into the verdict: everything after the per-sample loop in its block
        modx = ctx.ix.module(ALLELES)
        par = modx.parent.get(sloops_[0])
        blk = None
        for fld in ('body', 'orelse', 'finalbody'):
            b_ = getattr(par, fld, None)
            if isinstance(b_, list) and any(x is sloops_[0] for x in b_):
                blk = b_
        region = blk[[i for i, x in enumerate(blk) if x is sloops_[0]][0] + 1:] if blk else [dec[0]]
        # further collecting loops (a second pass over the genotype calls gathered by the first) are summarised by the case variables as well
        while region and isinstance(region[0], ast.For) and not any(x is dec[0] for x in ast.walk(region[0])):
            region = region[1:]
        problems = []
        ncase = 0
        for mono, nb, multi, sel, mism in itertools.product((True, False), (0, 1, 2), (True, False), (True, False), (True, False)):
            facts = {'self.select_samples is not None': sel, 'len(samples_assigned) != len(self.select_samples)': mism, 'len(self.select_samples) != len(samples_assigned)': mism}
            base_at = mk_atoms(facts)

            def at(e, mono=mono, nb=nb, base_at=base_at):
                t = src(e)
                if t == 'len(bases_to_alleles)':
                    return nb
                if t == 'monomorphic':
                    return mono
                # "some considered allele is missing" computed after the loops: any(<allele> is None for ..)
                if isinstance(e, ast.Call) and isinstance(e.func, ast.Name) and e.func.id == 'any' and len(e.args) == 1 and isinstance(e.args[0], (ast.GeneratorExp, ast.ListComp)) \
                        and isinstance(e.args[0].elt, ast.Compare) and len(e.args[0].elt.ops) == 1 and isinstance(e.args[0].elt.ops[0], ast.Is) \
                        and isinstance(e.args[0].elt.comparators[0], ast.Constant) and e.args[0].elt.comparators[0].value is None:
                    return mono
                return base_at(e)
            rs = explore(region, at, env0={'bad': multi, 'used': nb > 0})     # `used`: a base was registered, i.e. the mapping is non-empty
            got = {r['consts'].get('bad', 'unknown') for r in rs if r['kind'] in ('fall', 'continue')}
            want = False if (mono and nb > 0) else (True if nb < 2 else (multi or (sel and nb > 0 and mism)))
            ncase += 1
            if got != {want}:
                problems.append(((mono, nb, multi, sel, mism), sorted(map(str, got)), want))
        ctx.counters['abstract_cases'] += ncase
        ctx.emit('C18-R5', not problems, ALLELES, dec[0], f'informativeness decision over {ncase} cases (monomorphic, number of bases, multi-base allele seen, selection active, selected sample unassigned): a site judged bad '
                 'earlier stays bad unless it is monomorphic with a base' if not problems else
                 f'informativeness decision differs at (monomorphic, bases, bad so far, selection, incomplete)={problems[0][0]}: bad becomes {problems[0][1]}, expected {problems[0][2]}', key='informativeness-decision',
                 what='fetchChromosome: the final informativeness decision overwrites an earlier "bad" verdict')
    # conversion filter
    conv = [s for s in walk_no_nested(loop) if isinstance(s, ast.If) and 'ignore_conversions' in src(s.test)]
    ok = False
    detail = 'conversion filter not found'
    if conv:
        gens = [g for g in walk_no_nested(conv[0]) if isinstance(g, ast.GeneratorExp)]
        if gens:
            it = src(gens[0].generators[0].iter)
            elt = src(gens[0].elt)
            tv = gens[0].generators[0].target.id if isinstance(gens[0].generators[0].target, ast.Name) else '?'
            ok = it == 'bases_to_alleles' and elt == f'(rec.ref, {tv}) in self.ignore_conversions'
            detail = f'conversion filter tests `{elt}` for {tv} in {it}'
    ctx.emit('C18-R5', ok, ALLELES, conv[0] if conv else loop, detail + ('' if ok else ' (expected: the bases carried by the selected samples, i.e. bases_to_alleles)'), key='conversion-filter')
    # the store: after the informativeness decision, the site is stored iff it is used, not bad, and not excluded by the conversion filter -
    # decided by following the statements that execute after the decision (rest of its block, then the rest of each enclosing block up to
    # the record loop) for every valuation of (used, bad, filter active, filter hits)
    mod = ctx.ix.module(ALLELES)
    okstore = False
    detail = 'informativeness decision not found'
    if len(dec) == 1:
        cont = []
        node = dec[0]
        while True:
            par = mod.parent.get(node)
            if par is None:
                break
            for fld in ('body', 'orelse', 'finalbody'):
                blk = getattr(par, fld, None)
                if isinstance(blk, list) and any(x is node for x in blk):
                    cont.extend(blk[[i for i, x in enumerate(blk) if x is node][0] + 1:])
            if par is loop:
                break
            node = par
        problems = []
        ncase = 0
        for u, b_, ign, conv in itertools.product((True, False), repeat=4):
            def at(e, u=u, ign=ign, conv=conv):
                t = src(e)
                if t in ('0 < len(bases_to_alleles)', 'len(bases_to_alleles) != 0', 'bases_to_alleles'):
                    return u
                if t == 'len(bases_to_alleles) == 0':
                    return not u
                if t == 'self.ignore_conversions is not None':
                    return ign
                if t == 'self.ignore_conversions is None':
                    return not ign
                if isinstance(e, ast.Call) and isinstance(e.func, ast.Name) and e.func.id == 'any' and 'ignore_conversions' in t:
                    return conv
                return UNK
            rs = [r for r in explore(cont, at, env0={'used': u, 'bad': b_}) if r['kind'] in ('fall', 'continue')]
            ncase += 1
            stored = {any(t.startswith('self.locationToAllele[') and v == 'bases_to_alleles' for t, v, k in r['stores']) for r in rs}
            want = u and not b_ and not (ign and conv)
            if stored != {want}:
                problems.append(((u, b_, ign, conv), sorted(stored), want))
        ctx.counters['abstract_cases'] += ncase
        okstore = not problems
        detail = f'a site is stored iff used and not bad and not excluded by the conversion filter ({ncase} valuations)' if okstore else \
            f'store decision differs at (used, bad, filter active, filter hits)={problems[0][0]}: stored {problems[0][1]}, expected {problems[0][2]}'
    zero_based = any(isinstance(x, ast.Assign) and src(x.value) == 'bases_to_alleles' and 'rec.pos - 1' in src(x.targets[0]).replace('\n', ' ') for x in walk_no_nested(loop))
    ctx.emit('C18-R5', okstore and zero_based, ALLELES, dec[0] if dec else loop, detail + ('' if zero_based else '; the position key is not rec.pos - 1'), key='store-guard')
    # an unselected sample is inert: with a sample outside the selection, no path through the per-sample loop body changes anything the
    # record's verdict depends on (flags, the base -> samples mapping, the set of assigned samples)
    sloops = [l for l in walk_no_nested(loop) if isinstance(l, ast.For) and '.samples' in src(l.iter)]
    if sloops:
        sl = sloops[0]
        sv = sl.target.elts[0].id if isinstance(sl.target, ast.Tuple) and isinstance(sl.target.elts[0], ast.Name) else (sl.target.id if isinstance(sl.target, ast.Name) else None)
        leaks = []
        if sv:
            rs = explore(sl.body, mk_atoms({'self.select_samples is not None': True, f'{sv} not in self.select_samples': True, f'{sv} in self.select_samples': False}), names=None)
            for r in rs:
                changed = sorted(set(r['env']) - {sv}) + [t for t, v, k in r['stores']] + [c for c in r['calls'] if c.split('(')[0].endswith(('.add', '.append', '.update'))]
                if changed:
                    leaks.append(changed)
        ctx.emit('C18-R5', bool(sv) and not leaks, ALLELES, sl, 'a sample outside the selection changes nothing of the record state' if sv and not leaks else
                 f'a sample that is not selected still changes {leaks[0] if leaks else None} (e.g. its missing genotype marks the site monomorphic)', key='unselected-sample-inert',
                 what='fetchChromosome: an unselected sample influences the verdict of the record')
    # unphased records: every allele is labelled, and only when all alleles of the record are single bases
    lab = [l for l in walk_no_nested(loop) if isinstance(l, ast.For) and 'rec.alleles' in src(l.iter) and 'zip' in src(l.iter)]
    if lab:
        ll = lab[0]
        adds = [c for c in walk_no_nested(ll) if isinstance(c, ast.Call) and isinstance(c.func, ast.Attribute) and c.func.attr == 'add' and 'bases_to_alleles' in src(c.func.value)]
        inner_ok = bool(adds) and all(not (reach_conds(ll.body, c) or []) for c in adds) and not any(isinstance(x, (ast.Continue, ast.Break)) for x in walk_no_nested(ll))
        conds = reach_conds(loop.body, ll) or []
        snv = [(t_, pol) for t_, pol in conds if 'rec.alleles' in src(t_) and 'len(' in src(t_)]

        def is_all_single(t_, pol):
            # `all(len(a) == 1 for a in rec.alleles)` holding, or its negation / `any(len(a) != 1 ...)` not holding
            if isinstance(t_, ast.UnaryOp) and isinstance(t_.op, ast.Not):
                return is_all_single(t_.operand, not pol)
            if not (isinstance(t_, ast.Call) and isinstance(t_.func, ast.Name) and t_.func.id in ('all', 'any') and t_.args and isinstance(t_.args[0], (ast.GeneratorExp, ast.ListComp))):
                return False
            g_ = t_.args[0]
            if len(g_.generators) != 1 or g_.generators[0].ifs or src(g_.generators[0].iter) != 'rec.alleles' or not isinstance(g_.generators[0].target, ast.Name):
                return False
            a_ = g_.generators[0].target.id
            e_ = src(g_.elt)
            if t_.func.id == 'all':
                return pol and e_ in (f'len({a_}) == 1', f'1 == len({a_})')
            return (not pol) and e_ in (f'len({a_}) != 1', f'1 != len({a_})', f'1 < len({a_})', f'len({a_}) > 1')
        guard_ok = any(is_all_single(t_, pol) for t_, pol in snv)
        ctx.emit('C18-R5', inner_ok and guard_ok, ALLELES, ll, 'unphased records are labelled allele by allele without exception, and only when every allele is a single base' if inner_ok and guard_ok else
                 ('the labelling loop skips / filters alleles: a record with a multi-base allele is kept with its single-base alleles' if not inner_ok else
                  'the labelling of an unphased record is not guarded by "all alleles are single bases"'), key='unphased-snv-only',
                 what='fetchChromosome: an unphased record with a multi-base allele is not rejected as a whole')
    # sample selection: decided by `unselected-sample-inert` above (an unselected sample changes nothing), however the skip is written


@rule('C18', 'C18-R6', 'the region filter of the cache reader keeps what the region fetch of the writer stored: VariantFile.fetch(start, stop) yields the sites with start <= position < stop '
                       '(0-based), so for every such position the reader reaches the store - it neither skips it nor stops before it (decided over all small (position, start, stop), '
                       'bounds given or not)')
def r6(ctx):
    from ..util import outcomes_by_case
    ms = methods(ctx)
    f = ms['read_cached']
    loops = [l for l in walk_no_nested(f) if isinstance(l, ast.For)]
    loops = [l for l in loops if any(isinstance(s_, ast.Assign) and 'locationToAllele' in src(s_.targets[0]) for s_ in walk_no_nested(l))]
    ctx.need('C18-R6', len(loops), 1, 'record loop of read_cached')
    loop = loops[0]
    store = [s_ for s_ in walk_no_nested(loop) if isinstance(s_, ast.Assign) and 'locationToAllele' in src(s_.targets[0])][0]
    pos = None
    t_ = store.targets[0]
    while isinstance(t_, ast.Subscript):
        if isinstance(t_.value, ast.Subscript) and isinstance(t_.value.value, ast.Subscript) is False and isinstance(t_.value.value, ast.Attribute):
            pos = src(t_.slice)
        t_ = t_.value
    # the position key is the second subscript of locationToAllele[chrom][position][base]
    chain = []
    t_ = store.targets[0]
    while isinstance(t_, ast.Subscript):
        chain.append(src(t_.slice))
        t_ = t_.value
    pos = chain[-2] if len(chain) >= 2 else pos
    def atom(x):
        if isinstance(x, ast.Compare):
            return None
        if isinstance(x, ast.Call) and isinstance(x.func, ast.Name) and x.func.id == 'int' and len(x.args) == 1 and isinstance(x.args[0], ast.Name):
            return 'p'              # the position as parsed from the record (whatever the text field is called)
        return {pos: 'p', 'self.region_start': 's', 'self.region_end': 'e'}.get(src(x))
    bad, n = None, 0
    for has_s in (True, False):
        for has_e in (True, False):
            facts = {'self.region_start is not None': has_s, 'self.region_start is None': not has_s, 'self.region_end is not None': has_e, 'self.region_end is None': not has_e}
            cases = [{'p': p_, 's': s_, 'e': e_} for p_ in range(0, 4) for s_ in range(0, 4) for e_ in range(0, 5) if (not has_s or s_ <= p_) and (not has_e or p_ < e_)]
            for case, outs in outcomes_by_case(loop.body, cases, atom, facts=facts, on_node=lambda nd: 'store' if getattr(nd, 'ast', None) is store else None):
                n += 1
                stored = ('passed', 'store') in outs
                left = {k_ for k_, v_ in outs if k_ in ('continue', 'break', 'return', 'raise')}
                if (not stored or left) and bad is None:
                    bad = {'position': case['p'], 'region_start': case['s'] if has_s else None, 'region_end': case['e'] if has_e else None, 'outcomes': sorted(map(str, outs))}
    ctx.counters['abstract_cases'] += n
    ctx.emit('C18-R6', bad is None, ALLELES, loop, f'cache reader over {n} (position, start, stop) cases inside the fetched region: every record is stored' if bad is None else
             f'the cache reader drops a site the region fetch delivers: {bad} - the answers read from the cache differ from those of the run that wrote it', key='cache-region-filter', witness=bad,
             what='read_cached: region filter rejects a position inside [region_start, region_end)')


@rule('C18', 'C18-R7', 'only single-nucleotide alleles are stored as bases: the test that admits an allele of a sample into the per-site table, evaluated on allele strings, '
                       'holds for A / C / G / T and fails for every multi-base allele (indel, MNP) - also for those that happen to be a piece of "ACGT", which a substring test lets through')
def r7(ctx):
    from ..consteval import Evaluator, Unfoldable
    ms = methods(ctx)
    f = ms['fetchChromosome']
    # the statements that enter an allele of a sample into the per-site table: <table>[<allele>].add(<sample>) with <allele> bound by an enclosing loop
    sites = []
    for l in [x for x in ast.walk(f) if isinstance(x, ast.For)]:
        bound = {n.id for n in ast.walk(l.target) if isinstance(n, ast.Name)}
        for c in walk_no_nested(l):
            if isinstance(c, ast.Call) and isinstance(c.func, ast.Attribute) and c.func.attr == 'add' and isinstance(c.func.value, ast.Subscript) \
                    and isinstance(c.func.value.slice, ast.Name) and c.func.value.slice.id in bound and 'sample' in src(c).lower():
                inner = [x for x in ast.walk(l) if isinstance(x, ast.For) and x is not l and any(y is c for y in ast.walk(x)) and c.func.value.slice.id in {n.id for n in ast.walk(x.target) if isinstance(n, ast.Name)}]
                if not inner:
                    sites.append((l, c))
    ctx.need('C18-R7', len(sites), 1, 'statements entering an allele of a sample into the site table')
    singles = ['A', 'C', 'G', 'T']
    multis = ['AC', 'CG', 'GT', 'ACG', 'CGT', 'ACGT', 'AT', 'TT', 'GTA', 'CA', 'TG', 'AA']
    for k, (l, add) in enumerate(sites):
        var = add.func.value.slice.id
        adds = [add]
        conds = reach_conds(l.body, adds[0]) or []
        bad = None
        try:
            for val in singles + multis:
                env = {var: val}
                admitted = True
                for t, pol in conds:
                    if var not in names_in(t):
                        continue
                    admitted = admitted and (bool(Evaluator(dict(env)).ev(t, env)) == pol)
                want = val in singles
                if admitted != want and bad is None:
                    bad = {'allele': val, 'stored as a base': admitted, 'expected': want, 'test': ' and '.join(('' if pol else 'not ') + src(t) for t, pol in conds if var in names_in(t))}
        except (Unfoldable, Exception) as e_:
            ctx.emit('C18-R7', False, ALLELES, adds[0], f'the admission test of `{var}` is outside the interpreted subset ({type(e_).__name__}: {str(e_)[:60]})', key=f'allele-is-a-base:{k}', undecided=True)
            continue
        ctx.counters['interpreted_cases'] = ctx.counters.get('interpreted_cases', 0) + len(singles + multis)
        ctx.emit('C18-R7', bad is None, ALLELES, adds[0], f'{len(singles)} bases are admitted, {len(multis)} multi-base alleles mark the site instead' if bad is None else
                 f'allele admission differs: {bad} - the lookup answers for a site that is not a single-nucleotide site', key=f'allele-is-a-base:{k}', witness=bad,
                 what='AlleleResolver.fetchChromosome stores a multi-base allele as a base')


@rule('C18', 'C18-R8', 'site selection as a whole, run by the abstract interpreter: fetchChromosome on thirteen model VCF records (SNVs, ignored conversions, indels, missing calls, three alleles) x phased / unphased '
                       'x sample selections x ignored conversions, and on a file without samples, leaves exactly the prescribed (position, base, samples) entries in the table')
def r8(ctx):
    m = site_selection_model(ctx)
    f = methods(ctx)['fetchChromosome']
    if m is None:
        ctx.emit('C18-R8', False, ALLELES, f, f'fetchChromosome is outside the interpreted subset ({getattr(ctx, "_site_model_error", "")})', key='site-selection-model', undecided=True)
        return
    ok, n, wit = m
    ctx.counters['interpreted_cases'] = ctx.counters.get('interpreted_cases', 0) + n * len(MODEL_RECORDS)
    ctx.emit('C18-R8', ok, ALLELES, f, f'{len(MODEL_RECORDS)} model records x {n} configurations: the table holds exactly the prescribed sites' if ok else f'fetchChromosome on model records: {wit}',
             key='site-selection-model', witness=wit, what='fetchChromosome stores a site / base / sample the property does not prescribe (or misses one)')


META = {
    'text': ('Decides structural clauses: eager, lazy and cached modes all obtain content through fetchChromosome (read_cached / write_cache only from '
             'there; lookups fetch with clear=True under self.lazyLoad); no attribute read by the lookups is a stale snapshot of a constructor local; '
             'every configuration field read on the compute path must be part of the cache file name; cache writer and reader agree on field count, '
             'separators and types and the cache is written atomically; per-record flags are re-initialised per VCF record, the conversion filter '
             'inspects the carried bases, a site is stored iff used and not bad. The informative-site rules themselves are decided on thirteen model VCF records x 16 configurations (C18-R7/R8), NOT against a VCF at runtime.'),
    'technique': 'static analysis: call-graph single-source check, snapshot/redefinition path analysis, field read-set vs cache-key provenance, string-shape agreement, dominator check of per-iteration flag initialisation; decision table of the cache reader region filter; small-scope abstract execution of fetchChromosome on model VCF records (rule R8, and wherever the structural reading of the record loop cannot follow), the allele admission test evaluated on allele strings',
    'design_ref': 'DESIGN.md section 5, C18',
}


from . import shared as _shared
_shared.register('C18', 'C18')
