"""C11 - count tables count exactly the reads passing the filters, at the documented weights (structural clauses)."""
import ast
import itertools
from fractions import Fraction

from ..core import rule
from ..index import AnalysisError, dotted, src, walk_no_nested, names_in
from ..cfg import CFG, UNK
from ..domains import check_pred, eval_pred, cmp_atoms, NotComparisonOnly
from ..util import unevaluated_returns, node_calls, own_expr, truthiness_uses, explore, outcomes_by_case, enclosing_loops, loop_targets, mk_atoms, stmt_of, ancestors, reach_conds
from .slots import COUNTTABLE, BASEDEMUX

RS = 'read_should_be_counted'
AR = 'assignReads'


def options(ctx):
    """dest -> dict(group, type, default, action, node) for every add_argument of the count table parser."""
    m = ctx.ix.module(COUNTTABLE)
    groups = {}
    for s in ast.walk(m.tree):
        if isinstance(s, ast.Assign) and isinstance(s.value, ast.Call) and isinstance(s.value.func, ast.Attribute) and s.value.func.attr == 'add_argument_group' \
                and isinstance(s.targets[0], ast.Name) and s.value.args and isinstance(s.value.args[0], ast.Constant):
            groups[s.targets[0].id] = s.value.args[0].value
    out = {}
    for c in ast.walk(m.tree):
        if isinstance(c, ast.Call) and isinstance(c.func, ast.Attribute) and c.func.attr == 'add_argument' and c.args and isinstance(c.args[0], ast.Constant) \
                and isinstance(c.args[0].value, str):
            flag = c.args[0].value
            dest = flag.lstrip('-')
            kw = {k.arg: k.value for k in c.keywords}
            if 'dest' in kw and isinstance(kw['dest'], ast.Constant):
                dest = kw['dest'].value
            out[dest] = {'group': groups.get(src(c.func.value), src(c.func.value)), 'type': src(kw['type']) if 'type' in kw else None,
                         'default': kw['default'].value if 'default' in kw and isinstance(kw['default'], ast.Constant) else ('<none>' if 'default' not in kw else '<expr>'),
                         'action': kw['action'].value if 'action' in kw and isinstance(kw['action'], ast.Constant) else None, 'node': c}
    return out


def arg_reads(fdef, module=None, _seen=None):
    """options read by the function or by a function of the same module it calls with `args` (transitively)"""
    out = {n.attr for n in ast.walk(fdef) if isinstance(n, ast.Attribute) and isinstance(n.value, ast.Name) and n.value.id == 'args'}
    if module is not None:
        _seen = _seen if _seen is not None else {fdef.name}
        tops = {d.name: d for d in module.tree.body if isinstance(d, ast.FunctionDef)}
        for c in ast.walk(fdef):
            if isinstance(c, ast.Call) and isinstance(c.func, ast.Name) and c.func.id in tops and c.func.id not in _seen \
                    and any(isinstance(a, ast.Name) and a.id == 'args' for a in list(c.args) + [k.value for k in c.keywords]):
                _seen.add(c.func.id)
                out |= arg_reads(tops[c.func.id], module, _seen)
    return out


@rule('C11', 'C11-R1', 'every filter option of the parser is consulted by read_should_be_counted, every weighting option by assignReads')
def r1(ctx):
    opts = options(ctx)
    f = ctx.fn(COUNTTABLE, RS)
    g = ctx.fn(COUNTTABLE, AR)
    modc = ctx.ix.module(COUNTTABLE)
    used_f, used_g = arg_reads(f, modc), arg_reads(g, modc)
    filt = [d for d, o in opts.items() if o['group'] == 'Filters'] + [d for d in ('r1only', 'r2only') if d in opts]
    ctx.need('C11-R1', len(filt), 8, 'filter options')
    for d in sorted(filt):
        ctx.emit('C11-R1', d in used_f, COUNTTABLE, opts[d]['node'], f'filter option {d} is ' + ('read' if d in used_f else 'declared but never read') + f' by {RS}', key=f'filter-option:{d}', nontrivial=False,
                 what=f'filter option {d} is parsed but never consulted')
    for d in ('divideMultimapping', 'doNotDivideFragments', 'byValue', 'r1only', 'r2only'):
        if d in opts:
            ctx.emit('C11-R1', d in used_g, COUNTTABLE, opts[d]['node'], f'weighting option {d} is ' + ('read' if d in used_g else 'declared but never read') + f' by {AR}', key=f'weight-option:{d}', nontrivial=False)
    # the blacklist is handed in as a dictionary
    ok = 'blacklist_dic' in {a.arg for a in f.args.args} and any(isinstance(c, ast.Call) and dotted(c.func) == RS and len(c.args) == 3 for c in walk_no_nested(g))
    ctx.emit('C11-R1', ok, COUNTTABLE, g, f'{AR} passes read, args and the blacklist dictionary to {RS}', key='filter-call', nontrivial=False)
    calls = [c for c in walk_no_nested(g) if isinstance(c, ast.Call) and dotted(c.func) == RS]
    # with the filter failing no feasible path touches the count table; with it passing some path does
    ok = len(calls) == 1
    if ok:
        cs = src(calls[0])
        r_fail = explore(g.body, mk_atoms({cs: False}))
        touched = [r for r in r_fail if any(t.startswith('countTable[') for t, v, k in r['stores'])]
        ok = bool(r_fail) and not touched and all(r['kind'] in ('return', 'raise') for r in r_fail)
    first = calls[0] if calls else None
    ctx.emit('C11-R1', ok, COUNTTABLE, first if first is not None else g, 'a read failing the filter returns before anything is counted', key='filter-first')


@rule('C11', 'C11-R2', 'filters can only reject: every filter arm returns False, the only `return True` is the last statement; numeric options '
                       'with default None are tested with `is not None` (0 is a legal value), never by truthiness')
def r2(ctx):
    f = ctx.fn(COUNTTABLE, RS)
    # with every filter switched off and an ordinary mapped read the function accepts; each filter can only turn that into a rejection (C11-R4
    # decides the predicates) - stated on the outcome of the decision procedure, not on the position of `return True`
    outs = {o for c_, os_ in outcomes_by_case(f.body, [dict(BASE_CASE)], filter_atom, facts=dict(BASE_FACTS)) for o in os_}
    ok = outs == {('return', True)}
    ctx.emit('C11-R2', ok, COUNTTABLE, f, f'{RS}: with all filters off a mapped, non-failed read is accepted on every path ({sorted(map(str, outs))})', key='reject-only',
             undecided=(not ok) and bool(unevaluated_returns(outs)))
    opts = options(ctx)
    numeric_none = {d for d, o in opts.items() if o['type'] in ('int', 'float') and o['default'] in (None, '<none>')}
    bad = []
    for fn in (f, ctx.fn(COUNTTABLE, AR)):
        mod = ctx.ix.module(COUNTTABLE)
        for n in walk_no_nested(fn):
            if isinstance(n, ast.Attribute) and isinstance(n.value, ast.Name) and n.value.id == 'args' and n.attr in numeric_none:
                p = mod.parent.get(n)
                boolean_ctx = isinstance(p, (ast.BoolOp, ast.If, ast.IfExp, ast.While)) and (not isinstance(p, (ast.If, ast.IfExp, ast.While)) or p.test is n) or \
                    (isinstance(p, ast.UnaryOp) and isinstance(p.op, ast.Not))
                if boolean_ctx:
                    bad.append((fn.name, n))
    for name, n in bad:
        ctx.emit('C11-R2', False, COUNTTABLE, n, f'{name}: numeric option args.{n.attr} (default None) is tested by truthiness: the legal value 0 silently disables it',
                 key=f'{name}:truthiness:{n.attr}', what=f'{name}: option {n.attr} tested by truthiness (0 disables the filter)')
    if not bad:
        ctx.emit('C11-R2', True, COUNTTABLE, f, f'numeric options with default None ({sorted(numeric_none)}) are never tested by truthiness', key='truthiness')


@rule('C11', 'C11-R3', 'alignment attributes that are None for unmapped reads (cigarstring, reference_end, reference_name) are used only after the unmapped rejection')
def r3(ctx):
    f = ctx.fn(COUNTTABLE, RS)
    cfg = CFG(f.body, exceptions=False)
    dom = cfg.dominators()
    rej = set()
    for n in cfg.nodes:
        if n.kind == 'test' and 'read.is_unmapped' in src(n.ast.test):
            # must reject when unmapped: the test is a disjunction containing read.is_unmapped at top level and the body returns False
            t = n.ast.test
            top = t.values if isinstance(t, ast.BoolOp) and isinstance(t.op, ast.Or) else [t]
            if any(src(v) == 'read.is_unmapped' for v in top) and n.ast.body and isinstance(n.ast.body[0], ast.Return) and src(n.ast.body[0].value) == 'False':
                rej.add(n.id)
    uses = []
    for n in cfg.nodes:
        e = own_expr(n)
        if e is None:
            continue
        for x in walk_no_nested(e):
            if isinstance(x, ast.Attribute) and isinstance(x.value, ast.Name) and x.value.id == 'read' and x.attr in ('cigarstring', 'reference_end', 'reference_name', 'cigartuples'):
                uses.append((n, x))
    ctx.need('C11-R3', len(uses), 2, 'uses of alignment attributes')
    bad = [(n, x) for n, x in uses if not (dom[n.id] & rej) or n.id in rej]
    if bad:
        # path-sensitive second opinion: with an unmapped read, no feasible path (tests and verdict flags evaluated three-valued, constants assigned to locals
        # followed) evaluates one of these attributes
        use_nodes = {id(n.ast): x for n, x in uses}

        def mark(node):
            e = own_expr(node)
            if e is None:
                return None
            for x in walk_no_nested(e):
                if isinstance(x, ast.Attribute) and isinstance(x.value, ast.Name) and x.value.id == 'read' and x.attr in ('cigarstring', 'reference_end', 'reference_name', 'cigartuples'):
                    return f'{x.attr}@{x.lineno}'
            return None
        rs = explore(f.body, mk_atoms({'read.is_unmapped': True, 'read is None': False, 'read is not None': True}), mark=mark, max_paths=50000)
        hit = sorted({v for r in rs for t, v, k in r['stores'] if t == '<mark>'})
        if rs and not hit:
            bad = []
        ctx.counters['paths_enumerated'] += len(rs)
    ctx.emit('C11-R3', not bad, COUNTTABLE, bad[0][1] if bad else f, f'{len(uses)} uses of cigarstring / reference_end / reference_name: ' +
             ('all dominated by the rejection of unmapped reads' if not bad else f'`read.{bad[0][1].attr}` at line {bad[0][1].lineno} can be reached with an unmapped read (None) -> TypeError'),
             key='unmapped-guard', what=f'{RS}: alignment attribute used before unmapped reads are rejected')


@rule('C11', 'C11-R4', 'each filter test equals its documented predicate on every case (mate selection, MAPQ threshold, proper pairs, indels, '
                       'soft clips, edit distance, duplicates / rejected reads)')
def r4(ctx):
    f = ctx.fn(COUNTTABLE, RS)
    specs = [
        ('r1only', {'args.r1only': 'o', 'read.is_read2': 'x'}, [], lambda e: e['o'] and e['x']),
        ('r2only', {'args.r2only': 'o', 'read.is_read1': 'x'}, [], lambda e: e['o'] and e['x']),
        ('minMQ', {}, ['mq', 'min'], lambda e: e['mq'] < e['min']),
        ('proper_pairs_only', {'args.proper_pairs_only': 'o', 'read.is_proper_pair': 'x'}, [], lambda e: e['o'] and not e['x']),
        ('no_indels', {'args.no_indels': 'o', "'I' in read.cigarstring": 'i', "'D' in read.cigarstring": 'd'}, [], lambda e: e['o'] and (e['i'] or e['d'])),
        ('no_softclips', {'args.no_softclips': 'o', "'S' in read.cigarstring": 's'}, [], lambda e: e['o'] and e['s']),
        ('max_base_edits', {'args.max_base_edits is not None': 'o', "read.has_tag('NM')": 'h'}, ['nm', 'lim'], lambda e: e['o'] and e['h'] and e['nm'] > e['lim']),
        ('dedup', {'args.dedup': 'o', "read.has_tag('RR')": 'rr', 'read.is_duplicate': 'dup'}, [], lambda e: e['o'] and (e['rr'] or e['dup'])),
        ('qcfail', {'read is None': 'n', 'read.is_qcfail': 'q', 'read.is_unmapped': 'u'}, [], lambda e: e['n'] or e['q'] or e['u']),
        ('filterXA', {'args.filterXA': 'o', 'read_has_alternative_hits_to_non_alts(read)': 'x'}, [], lambda e: e['o'] and e['x']),
        ('filterMP', {'args.filterMP': 'o', "read.has_tag('mp')": 'h', "read.get_tag('mp') != 'unique'": 'nu'}, [], lambda e: e['o'] and ((not e['h']) or e['nu'])),
    ]
    n = 0
    for name, ren, syms, spec in specs:
        # decision procedure: all other filters off, this filter's atoms range over every combination; the read is rejected iff the documented
        # predicate holds - independent of how the test is nested, split or merged with its neighbours
        bools = sorted(set(ren.values()))
        inv = {}
        for t_, b_ in ren.items():
            inv.setdefault(b_, []).append(t_)
        bad = []
        ncase = 0
        for bv in itertools.product((True, False), repeat=len(bools)):
            benv = dict(zip(bools, bv))
            if name == 'qcfail' and benv.get('n'):
                # a missing read: nothing else may be evaluated on it; only the outcome counts
                pass
            facts = dict(BASE_FACTS)
            for b_, texts in inv.items():
                for t_ in texts:
                    facts[t_] = benv[b_]
            if name == 'max_base_edits':
                facts['args.max_base_edits is None'] = not benv['o']
            numcases = [dict(BASE_CASE)]
            if syms:
                numcases = [dict(BASE_CASE, **dict(zip(syms, v))) for v in itertools.product(range(-1, 3), repeat=len(syms))]
            for case, outs in outcomes_by_case(f.body, numcases, filter_atom, facts=facts):
                ncase += 1
                e = dict(benv, **case)
                want = not spec(e)
                got = {bool(v) if isinstance(v, (bool, int)) else v for k_, v in outs if k_ == 'return'}
                if (got != {want} or any(k_ != 'return' for k_, v in outs)) and len(bad) < 3:
                    bad.append({'case': {k_: e[k_] for k_ in list(benv) + syms}, 'outcomes': sorted(map(str, outs)), 'documented_accept': want})
        n += 1
        ctx.counters['abstract_cases'] += ncase
        und_ = bool(bad) and any('return' in o_ and not any(c_ in o_ for c_ in ("True)", "False)")) for b_ in bad for o_ in b_['outcomes'])
        ctx.emit('C11-R4', not bad, COUNTTABLE, f, f'{name}: over {ncase} cases the read is rejected iff the documented predicate holds' if not bad else
                 f'{name}: differs at {bad[0]["case"]}: outcomes {bad[0]["outcomes"]}, documented: {"accept" if bad[0]["documented_accept"] else "reject"}', key=f'predicate:{name}',
                 witness=bad[0] if bad else None, undecided=und_)
    ctx.need('C11-R4', n, 8, 'filter predicates')
    ctx.exhaustive['C11-R4'] = True


# every filter off, an ordinary mapped read: the baseline under which one filter at a time is varied
BASE_FACTS = {'args.r1only': False, 'args.r2only': False, 'args.filterMP': False, 'read is None': False, 'read.is_qcfail': False, 'read.is_unmapped': False,
              'args.proper_pairs_only': False, 'args.no_indels': False, 'args.max_base_edits is not None': False, 'args.max_base_edits is None': True,
              'args.no_softclips': False, 'args.filterXA': False, 'args.dedup': False, 'blacklist_dic is not None': False, 'blacklist_dic is None': True,
              'read.is_read1': True, 'read.is_read2': False, 'read.is_proper_pair': True, "read.has_tag('NM')": False, "read.has_tag('RR')": False, 'read.is_duplicate': False,
              "'I' in read.cigarstring": False, "'D' in read.cigarstring": False, "'S' in read.cigarstring": False,
              'read_has_alternative_hits_to_non_alts(read)': False, "read.has_tag('mp')": True, "read.get_tag('mp') != 'unique'": False}
BASE_CASE = {'mq': 1, 'min': 0, 'nm': 0, 'lim': 1}


def filter_atom(x):
    if isinstance(x, ast.Compare):
        return None
    return {'read.mapping_quality': 'mq', 'args.minMQ': 'min', "int(read.get_tag('NM'))": 'nm', 'args.max_base_edits': 'lim'}.get(src(x).replace('"', "'"))


class Sym:
    """value = base / divisor (divisor is a source text or None)"""

    def __init__(self, base, div=None):
        self.base, self.div = base, div

    def __eq__(self, o):
        return isinstance(o, Sym) and self.base == o.base and self.div == o.div

    def __repr__(self):
        return f'{self.base}' + (f' / {self.div}' if self.div else '')


def interp(stmts, env, atoms):
    """Abstractly execute assignments / ifs over boolean atoms and small numeric values. env: name -> Sym | bool."""
    for s in stmts:
        if isinstance(s, ast.Assign) and len(s.targets) == 1 and isinstance(s.targets[0], ast.Name):
            v_ = ev(s.value, env, atoms)
            if v_ is None:
                # not a weight: remember the expression (a divisor computed into a local) or that it is None
                v_ = ('none',) if isinstance(s.value, ast.Constant) and s.value.value is None else ('expr', src(s.value))
            env[s.targets[0].id] = v_
        elif isinstance(s, ast.AugAssign) and isinstance(s.target, ast.Name):
            env[s.target.id] = None
        elif isinstance(s, ast.If):
            a2 = dict(atoms)
            for nm, v in env.items():
                if isinstance(nm, str):
                    a2[f'{nm} is None'] = v is None or v == ('none',)
                    a2[f'{nm} is not None'] = not (v is None or v == ('none',))
            try:
                c = eval_pred(s.test, a2, None)
            except NotComparisonOnly:
                raise AnalysisError(f'weight computation: test `{src(s.test)}` uses unknown atoms')
            interp(s.body if c else s.orelse, env, atoms)
    return env


def ev(e, env, atoms):
    if isinstance(e, ast.Constant) and isinstance(e.value, (int, float)) and not isinstance(e.value, bool):
        return Sym(Fraction(e.value).limit_denominator(1000))
    if isinstance(e, ast.Name):
        v_ = env.get(e.id)
        return v_ if isinstance(v_, Sym) or v_ is None else None
    if isinstance(e, ast.IfExp):
        try:
            c = eval_pred(e.test, atoms, None)
        except NotComparisonOnly:
            raise AnalysisError(f'weight computation: test `{src(e.test)}` uses unknown atoms')
        return ev(e.body if c else e.orelse, env, atoms)
    if isinstance(e, ast.BinOp) and isinstance(e.op, ast.Div):
        l = ev(e.left, env, atoms)
        if l is None or l.div is not None:
            return None
        r = e.right
        if isinstance(r, ast.Constant):
            return Sym(l.base / Fraction(r.value))
        if isinstance(r, ast.Name) and isinstance(env.get(r.id), tuple) and env[r.id][0] == 'expr':
            return Sym(l.base, env[r.id][1])
        return Sym(l.base, src(r))
    return None


def _assign_model_or_structural(ctx, rid, structural):
    """the structural reading of assignReads decides; where it cannot follow a restructured function (anchors not found, constructs not recognised) the interpreted
    model of assignReads (assign_model: every combination of binning / by-value / pairing / mate selection / multimapping division) decides instead"""
    from ..core import Ctx, VIOLATED, UNDECIDED
    sub = Ctx(ctx.ix, 'C11', ctx.tier)
    err = None
    try:
        structural(sub)
    except AnalysisError as e_:
        err = e_
    except Exception as e_:
        err = AnalysisError(f'structural reading failed ({type(e_).__name__}: {e_})')
    for k_, v_ in sub.counters.items():
        ctx.counters[k_] = (ctx.counters.get(k_, set()) | v_) if isinstance(v_, set) else ctx.counters.get(k_, 0) + v_
    for k_, v_ in getattr(sub, 'exhaustive', {}).items():
        ctx.exhaustive[k_] = v_
    open_ = [o for o in sub.obligations if o.status in (VIOLATED, UNDECIDED)]
    if err is None and not open_:
        ctx.obligations.extend(sub.obligations)
        return
    m = assign_model(ctx)
    if m is None:
        ctx.obligations.extend(sub.obligations)
        if err is not None:
            raise err
        return
    ok, n, wit = m
    f = ctx.fn(COUNTTABLE, AR)
    if ok:
        ctx.obligations.extend([o for o in sub.obligations if o not in open_])
        ctx.emit(rid, True, COUNTTABLE, f, f'assignReads interpreted on {n} option combinations: keys, samples and weights are the prescribed ones (the structural reading did not follow the restructured function)',
                 key='assignReads-model')
    else:
        ctx.obligations.extend(sub.obligations)
        ctx.emit(rid, False, COUNTTABLE, f, f'assignReads on a model read: {wit}', key='assignReads-model', witness=wit, what='assignReads: a counted read is stored under a key / weight other than the documented one')


@rule('C11', 'C11-R5', 'weights: a read weighs 1/2 iff it is paired with a mapped mate and neither mate selection nor doNotDivideFragments '
                       'is active, otherwise 1; divideMultimapping divides THAT weight by the number of reported hits; the weight reaching the '
                       'table is the computed one (or the tag value under byValue)')
def r5(ctx):
    _assign_model_or_structural(ctx, 'C11-R5', _r5_structural)


def _r5_structural(ctx):
    g = ctx.fn(COUNTTABLE, AR)
    # segment from `countToAdd = 1` to the construction of count_increment
    # (the first top-level statement that stores the weight, whether a plain assignment or an if/else that assigns it in its arms)
    idx1 = [i for i, s in enumerate(g.body) if isinstance(s, ast.Assign) and src(s.targets[0]) == 'count_increment']
    # the weight may be staged through other locals (`w = ...; countToAdd = w / n`): the segment starts where the first of them is assigned
    deps = {'countToAdd'}
    head = g.body[:idx1[0]] if idx1 else g.body
    grew = True
    while grew:
        grew = False
        for s in head:
            for x in [s] + list(walk_no_nested(s)):
                if isinstance(x, ast.Assign) and len(x.targets) == 1 and isinstance(x.targets[0], ast.Name) and x.targets[0].id in deps:
                    new = {n.id for n in ast.walk(x.value) if isinstance(n, ast.Name) and isinstance(n.ctx, ast.Load)} - deps
                    new = {n for n in new if any(isinstance(y, ast.Assign) and len(y.targets) == 1 and src(y.targets[0]) == n for t in head for y in [t] + list(walk_no_nested(t)))}
                    if new:
                        deps |= new
                        grew = True
    idx0 = [i for i, s in enumerate(g.body) if any(isinstance(x, ast.Assign) and src(x.targets[0]) in deps for x in ([s] + list(walk_no_nested(s))))]
    if not idx0 or not idx1:
        raise AnalysisError(f'{AR}: weight computation segment not found')
    seg = g.body[idx0[0]:idx1[0]]
    # boolean atoms used by the segment
    atoms = {}
    seg_locals = {x.targets[0].id for s in seg for x in ([s] + list(walk_no_nested(s))) if isinstance(x, ast.Assign) and len(x.targets) == 1 and isinstance(x.targets[0], ast.Name)}
    for s in seg:
        for n in [s] + list(walk_no_nested(s)):
            if isinstance(n, (ast.If, ast.IfExp)):
                _, b = cmp_atoms(n.test)
                atoms.update(b)
    # nullness tests on locals of the segment (`hits is not None`) are decided by the interpreter from what was assigned, they are no atoms
    names = sorted(a_ for a_ in atoms if not any(a_ in (f'{l_} is None', f'{l_} is not None') for l_ in seg_locals))
    role = {}
    for a in names:
        for key, r in (('args.r1only', 'r1'), ('args.r2only', 'r2'), ('args.doNotDivideFragments', 'nodiv'), ('read.is_paired', 'paired'), ('read.mate_is_unmapped', 'mate_unmapped'),
                       ('args.divideMultimapping', 'mm'), ("read.has_tag('XA')", 'xa'), ("read.has_tag('NH')", 'nh')):
            if a == key:
                role[a] = r
    unknown = [a for a in names if a not in role]
    if unknown:
        ctx.emit('C11-R5', False, COUNTTABLE, seg[0], f'the weight depends on atoms outside the documented rule: {unknown} (documented: mate selection, doNotDivideFragments, paired, mate mapped, divideMultimapping, XA, NH)',
                 key='weight-rule', witness={'unexpected atoms': unknown}, what=f'{AR}: fragment weight depends on {unknown}')
        return
    bad = []
    ncase = 0
    all_roles = ['r1', 'r2', 'nodiv', 'paired', 'mate_unmapped', 'mm', 'xa', 'nh']
    inv = {v: k for k, v in role.items()}
    for vals in itertools.product((False, True), repeat=len(all_roles)):
        r = dict(zip(all_roles, vals))
        a = {inv[k]: v for k, v in r.items() if k in inv}
        ncase += 1
        env = interp(seg, {}, a)
        got = env.get('countToAdd')
        half = not (r.get('r1', False) or r.get('r2', False)) and not r.get('nodiv', False) and r.get('paired', False) and not r.get('mate_unmapped', False)
        base = Fraction(1, 2) if half else Fraction(1)
        div = None
        if r.get('mm', False):
            if r.get('xa', False):
                div = "len(read.get_tag('XA').split(';'))"
            elif r.get('nh', False):
                div = "int(read.get_tag('NH'))"
        want = Sym(base, div)
        if got != want and len(bad) < 3:
            bad.append({'case': r, 'code': repr(got), 'documented': repr(want)})
    ctx.counters['abstract_cases'] += ncase
    ctx.emit('C11-R5', not bad, COUNTTABLE, seg[0], f'weight over {ncase} combinations of {sorted(role.values())}: ' + ('== documented rule' if not bad else f'differs, e.g. {bad[0]}'),
             key='weight-rule', witness=bad[0] if bad else None, what=f'{AR}: weight differs from the documented 1/2-per-mapped-mate rule')
    ctx.exhaustive['C11-R5'] = True
    # provenance of every 'increment'
    incs = []
    for d in ast.walk(g):        # also inside a nested record-building closure
        if isinstance(d, ast.Dict):
            for k, v in zip(d.keys, d.values):
                if isinstance(k, ast.Constant) and k.value == 'increment':
                    incs.append(v)
    # a closure `record(key, features, increment)` builds the dicts: the increments are the arguments of its calls
    closures = {n.name: n for n in ast.walk(g) if isinstance(n, ast.FunctionDef) and n is not g}
    for nm_, fn_ in closures.items():
        pos_ = [i_ for i_, a_ in enumerate(fn_.args.args) if any(isinstance(d, ast.Dict) and any(isinstance(k, ast.Constant) and k.value == 'increment' and isinstance(v, ast.Name) and v.id == a_.arg
                                                                                                         for k, v in zip(d.keys, d.values)) for d in ast.walk(fn_))]
        if pos_:
            incs = [v for v in incs if not (isinstance(v, ast.Name) and v.id == fn_.args.args[pos_[0]].arg)]
            for c in walk_no_nested(g):
                if isinstance(c, ast.Call) and isinstance(c.func, ast.Name) and c.func.id == nm_:
                    a_ = c.args[pos_[0]] if len(c.args) > pos_[0] else next((k.value for k in c.keywords if k.arg == fn_.args.args[pos_[0]].arg), None)
                    if a_ is not None:
                        incs.append(a_)
    ctx.need('C11-R5', len(incs), 4, "'increment' entries")
    mod = ctx.ix.module(COUNTTABLE)
    okall = True
    TAGVALUE = {'float(feature_dict.get(args.byValue, 0))', '0'}
    for v in incs:
        t = src(v)
        if t == 'countToAdd':
            continue
        if isinstance(v, ast.Name):
            # path-based: on every path to the record the local holds the computed weight, or - only where a by-value tag is requested -
            # the tag's value.  Decided in the innermost enclosing block that assigns the local on every path to the record.
            use = stmt_of(mod, v)
            enclosing = reach_conds(g.body, use) or []
            facts = {}

            def learn(t_, pol):
                facts[src(t_)] = pol
                if isinstance(t_, ast.BoolOp) and ((isinstance(t_.op, ast.And) and pol) or (isinstance(t_.op, ast.Or) and not pol)):
                    for x_ in t_.values:
                        learn(x_, pol)
                elif isinstance(t_, ast.UnaryOp) and isinstance(t_.op, ast.Not):
                    learn(t_.operand, not pol)
            for t_, pol in enclosing:
                learn(t_, pol)
            fixed = mk_atoms(facts)(ast.parse('args.byValue is not None', mode='eval').body)
            blocks = []
            for a in ancestors(mod, use):
                for fld in ('body', 'orelse', 'finalbody'):
                    b_ = getattr(a, fld, None)
                    if isinstance(b_, list) and any(x is use or any(y is use for y in ast.walk(x)) for x in b_):
                        blocks.append(b_)
                if a is g:
                    break
            verdict = None
            for b_ in blocks:
                vals = {}
                complete = True
                try:
                    for byv in ((True, False) if fixed is UNK else (bool(fixed),)):
                        rs = [r for r in explore(b_, mk_atoms(dict(facts, **{'args.byValue is not None': byv})), names=(v.id,), upto=use, max_paths=3000) if r['kind'] == 'upto']
                        if not rs or any(v.id not in r['env'] for r in rs):
                            complete = False
                            break
                        vals[byv] = {src(r['env'][v.id]) for r in rs}
                except AnalysisError:
                    complete = False
                if complete:
                    verdict = all(vs <= ({'countToAdd'} | (TAGVALUE if byv else set())) for byv, vs in vals.items())
                    if not verdict:
                        t = f'{t} = {sorted(set().union(*vals.values()))} (by-value requested: {sorted(vals)})'
                    break
            if verdict:
                continue
        okall = False
        ctx.emit('C11-R5', False, COUNTTABLE, v, f"'increment' is `{t}` instead of the computed weight", key=f'increment:{src(v)}')
    if okall:
        ctx.emit('C11-R5', True, COUNTTABLE, g, f"all {len(incs)} 'increment' entries are the computed weight (or the tag value under byValue)", key='increment-provenance')
    augs = [a for a in walk_no_nested(g) if isinstance(a, ast.AugAssign) and src(a.target).startswith('countTable[')]
    # every table update adds the 'increment' entry of the record of the enclosing loop - directly or through a local assigned from it
    def is_increment_of_loop_record(a):
        loops_ = enclosing_loops(g, a)
        recs_ = {n for l_ in loops_ for n in loop_targets(l_.target)}
        v = a.value
        if isinstance(v, ast.Name):
            dd = [s_.value for l_ in loops_ for s_ in walk_no_nested(l_) if isinstance(s_, ast.Assign) and len(s_.targets) == 1 and src(s_.targets[0]) == v.id]
            if not dd or len({src(d_) for d_ in dd}) != 1:
                return False
            v = dd[0]
        return isinstance(v, ast.Subscript) and isinstance(v.value, ast.Name) and v.value.id in recs_ and isinstance(v.slice, ast.Constant) and v.slice.value == 'increment'
    ok = len(augs) >= 3 and all(isinstance(a.op, ast.Add) and is_increment_of_loop_record(a) for a in augs)
    ctx.emit('C11-R5', ok, COUNTTABLE, g, f'{len(augs)} table updates add the "increment" entry of the current record', key='table-update')
    # sample and feature of the same read
    rt = [c for c in ast.walk(g) if isinstance(c, ast.Call) and dotted(c.func) == 'readTag' and c.args]
    rd0 = g.args.args[0].arg
    over_samples = any('sampleTags' in src(x) for c in rt for x in [ctx.ix.module(COUNTTABLE).parent.get(ctx.ix.module(COUNTTABLE).parent.get(c))] if x is not None) or 'sampleTags' in src(g)
    ctx.emit('C11-R5', len(rt) >= 2 and all(src(c.args[0]) == rd0 for c in rt) and over_samples, COUNTTABLE, g,
             f'sample and feature values are read from the same read via readTag ({len(rt)} reads, all of `{rd0}`)', key='same-read', nontrivial=False)


def blacklist_scan_model(ctx):
    """read_should_be_counted run by the abstract interpreter with every other filter switched off, on a blacklist whose intervals are NOT in coordinate order: a read well
    inside any interval of its contig is refused - whichever position the interval has in the list - and a read clear of all of them, or on a contig without entries, is
    counted.  (ok, cases, witness) or None outside the interpreted subset."""
    from ..consteval import module_scope, Evaluator, Instance, Unfoldable, Raised
    g = ctx.fn(COUNTTABLE, RS)
    try:
        env = module_scope(ctx.ix, COUNTTABLE)
        fns = [g] + [v.fdef for v in env.values() if type(v).__name__ == 'LocalFn']
        arg_attrs = {x.attr for fd in fns for x in ast.walk(fd) if isinstance(x, ast.Attribute) and isinstance(x.value, ast.Name) and x.value.id == 'args'}
        read_attrs = {x.attr for fd in fns for x in ast.walk(fd) if isinstance(x, ast.Attribute) and isinstance(x.value, ast.Name) and x.value.id == 'read' and isinstance(x.ctx, ast.Load)}
        black = {'chr1': [(500, 600), (100, 200), (300, 400)], 'chr2': [(0, 1000)]}
        n = 0
        for contig, start, want in (('chr1', 120, False), ('chr1', 320, False), ('chr1', 520, False), ('chr1', 700, True), ('chr1', 10, True), ('chr2', 10, False), ('chr3', 120, True)):
            n += 1
            a = Instance(attrs={k: None for k in arg_attrs})
            a.attrs.update({k: False for k in arg_attrs if k.startswith(('filter', 'no_', 'proper', 'r1only', 'r2only', 'dedup'))})
            a.attrs.update({'minMQ': 0, 'max_base_edits': None})
            r = Instance(attrs={k: False for k in read_attrs})
            r.attrs.update({'reference_name': contig, 'reference_start': start, 'reference_end': start + 30, 'mapping_quality': 60, 'cigarstring': '30M', 'is_read1': True, 'is_read2': False})

            def hook(ev, call, env_):
                if isinstance(call.func, ast.Attribute) and call.func.attr in ('has_tag', 'get_tag') and isinstance(ev.ev(call.func.value, env_), Instance):
                    if call.func.attr == 'has_tag':
                        return False
                    raise Raised('KeyError', 'tag')
                return NotImplemented
            e = dict(env)
            e.update({'r': r, 'a': a, 'b': {k: list(v) for k, v in black.items()}})
            got = Evaluator(e, budget=100000, call_hook=hook).ev(ast.parse(f'{RS}(r, a, b)', mode='eval').body, e)
            if bool(got) != want:
                return False, n, {'blacklist (file order)': black, 'read': f'{contig}:{start}-{start + 30}', 'counted': bool(got), 'expected': want}
        return True, n, None
    except (Unfoldable, Raised, Exception) as e_:
        ctx._blacklist_model_error = f'{type(e_).__name__}: {str(e_)[:100]}'
        return None



@rule('C11', 'C11-R6', 'a read is counted under its own values and every blacklisted interval is consulted: tag / attribute values are never tested for '
                       'truth (0 and "" are legitimate values), the placeholder is returned only when reading the value failed, and the blacklist scan '
                       'has no early exit')
def r6(ctx):
    is_src = lambda c: (isinstance(c.func, ast.Attribute) and c.func.attr in ('get_tag', 'metaFromRead')) or (isinstance(c.func, ast.Name) and c.func.id in ('getattr', 'metaFromRead', 'readTag'))
    n = 0
    for rel, q in ((COUNTTABLE, 'readTag'), (BASEDEMUX, 'metaFromRead')):
        f = ctx.fn(rel, q)
        uses = truthiness_uses(f, is_src)
        n += 1
        ctx.emit('C11-R6', not uses, rel, uses[0][0] if uses else f, f'{q}: no value read from the alignment is tested for truth' if not uses else
                 f'{q}: {uses[0][1]}: a value of 0 / "" is treated as missing and the read is counted under the placeholder', key=f'{q}:no-truthiness-test',
                 what=f'{q}: a falsy tag value (0, "") is treated as missing')
    # readTag: the placeholder is only returned from the exception arm
    f = ctx.fn(COUNTTABLE, 'readTag')
    dflt = f.args.args[2].arg if len(f.args.args) > 2 else 'defective'
    rs = explore(f.body, lambda e: UNK, names=None)
    bad = [r for r in rs if r['kind'] == 'return' and r['stmt'] is not None and r['stmt'].value is not None and
           (src(r['stmt'].value) == dflt or (isinstance(r['stmt'].value, ast.Name) and src(r['env'].get(r['stmt'].value.id, ast.Constant(0))) == dflt))]
    ctx.emit('C11-R6', not bad, COUNTTABLE, f, 'readTag: on the normal path the value that was read is returned unchanged (the placeholder only comes from the except arm)' if not bad else
             'readTag: a normal (non-exception) path returns the placeholder instead of the value read', key='readTag:placeholder-only-on-failure')
    # every row of the blacklist file reaches the table: rows grouped with itertools.groupby are grouped by ADJACENCY - storing a group under its key replaces what an
    # earlier, non-adjacent group of the same contig stored (the file is in the order its author wrote it)
    cct = ctx.fn(COUNTTABLE, 'create_count_table')
    for gl in [l for l in ast.walk(cct) if isinstance(l, ast.For) and isinstance(l.iter, ast.Call) and (dotted(l.iter.func) or '').split('.')[-1] == 'groupby' and l.iter.args]:
        srt = isinstance(l_ := gl.iter.args[0], ast.Call) and dotted(l_.func) == 'sorted'
        keyv = gl.target.elts[0].id if isinstance(gl.target, ast.Tuple) and gl.target.elts and isinstance(gl.target.elts[0], ast.Name) else None
        over = [a_ for a_ in ast.walk(gl) if isinstance(a_, ast.Assign) and any(isinstance(t_, ast.Subscript) and isinstance(t_.slice, ast.Name) and t_.slice.id == keyv and 'blacklist' in src(t_.value) for t_ in a_.targets)]
        if over and not srt:
            ctx.emit('C11-R6', False, COUNTTABLE, over[0], f'`{src(over[0])[:60]}` stores each run of adjacent rows under its contig: in a blacklist whose rows of one contig are not adjacent (chr1, chr2, chr1) the later run '
                     'replaces the earlier one, reads in the earlier intervals are counted', key='blacklist-rows-all-loaded', witness={'rows': ['chr1 10 20', 'chr2 5 9', 'chr1 50 60'], 'loaded for chr1': [(50, 60)]},
                     what='create_count_table: blacklist rows of a contig that are not adjacent in the file are lost')
    g = ctx.fn(COUNTTABLE, 'read_should_be_counted')
    loops = [l for l in walk_no_nested(g) if isinstance(l, ast.For) and 'blacklist' in src(l.iter)]
    if not loops:
        # the scan lives in a helper: the filter as a whole is run on an unsorted blacklist instead
        m = blacklist_scan_model(ctx)
        if m is not None:
            ctx.counters['interpreted_cases'] = ctx.counters.get('interpreted_cases', 0) + m[1]
            ctx.emit('C11-R6', m[0], COUNTTABLE, g, f'read_should_be_counted interpreted on {m[1]} reads against an unsorted blacklist: a read inside any listed interval is refused, all others are counted' if m[0] else
                     f'blacklist scan: {m[2]} - an interval of the list is not consulted (or a read outside every interval is refused)', key='blacklist-scan-complete', witness=m[2],
                     what='read_should_be_counted: the blacklist scan has an early exit')
            return
    ctx.need('C11-R6', len(loops), 1, 'blacklist scan loops in read_should_be_counted')
    for l in loops:
        brk = [x for x in walk_no_nested(l) if isinstance(x, ast.Break)]
        # leaving the scan is fine when the read was found inside an interval (the function then rejects it); any other early exit skips intervals
        early = []
        if brk:
            top = [s_ for s_ in g.body if any(x is l for x in ast.walk(s_))]
            region = g.body[g.body.index(top[0]):] if top else [l]
            rs = explore(region, lambda e: UNK, mark=lambda nd: 'break' if isinstance(nd.ast, ast.Break) and any(nd.ast is b_ for b_ in brk) else None)
            for r in rs:
                if any(t == '<mark>' for t, v, k in r['stores']):
                    rejects = r['kind'] == 'return' and r['stmt'] is not None and r['stmt'].value is not None and (src(r['stmt'].value) == 'False' or r.get('retval') is False)
                    if not rejects:
                        early.append(r)
        ctx.emit('C11-R6', not early, COUNTTABLE, brk[0] if early else l, 'the blacklist scan visits every interval of the contig until one contains the read (which is then rejected)' if not early else
                 'the blacklist scan stops early (`break`) on a path that does not reject the read: intervals listed after that point are never consulted (the list is in file order, not sorted)',
                 key='blacklist-scan-complete', what='read_should_be_counted: the blacklist scan has an early exit')


def _endswith_alt_polarity(t, pol, elem_names):
    """(test, polarity) -> polarity of `<element>.endswith('_alt')` it asserts, or None when the test is something else"""
    if isinstance(t, ast.UnaryOp) and isinstance(t.op, ast.Not):
        return _endswith_alt_polarity(t.operand, not pol, elem_names)
    if isinstance(t, ast.Call) and isinstance(t.func, ast.Attribute) and t.func.attr == 'endswith' and len(t.args) == 1 and isinstance(t.args[0], ast.Constant) and t.args[0].value == '_alt' \
            and (names_in(t.func.value) & elem_names):
        return pol
    return None


def _quantifier_of(e, fdef, depth=0):
    """('any' | 'all', polarity of the is-alt predicate on the elements) for any(G) / all(G) / not ... over a generator whose element is
    [not] x.endswith('_alt'); local names are looked through.  None when not of that form."""
    if depth > 4:
        return None
    if isinstance(e, ast.UnaryOp) and isinstance(e.op, ast.Not):
        q = _quantifier_of(e.operand, fdef, depth + 1)
        return None if q is None else ({'any': 'all', 'all': 'any'}[q[0]], not q[1])
    if isinstance(e, ast.Name):
        defs = [s_ for s_ in walk_no_nested(fdef) if isinstance(s_, ast.Assign) and len(s_.targets) == 1 and src(s_.targets[0]) == e.id]
        return _quantifier_of(defs[0].value, fdef, depth + 1) if len(defs) == 1 else None
    if isinstance(e, ast.Call) and isinstance(e.func, ast.Name) and e.func.id in ('any', 'all') and len(e.args) == 1 and isinstance(e.args[0], (ast.GeneratorExp, ast.ListComp)):
        g = e.args[0]
        # filters that do not look at the contig name (empty entries skipped) only restrict which hits are quantified over
        if len(g.generators) != 1 or any('endswith' in src(t_) or '_alt' in src(t_) for t_ in g.generators[0].ifs):
            return None
        elem = {n.id for n in ast.walk(g.generators[0].target) if isinstance(n, ast.Name)}
        pol = _endswith_alt_polarity(g.elt, True, elem)
        return None if pol is None else (e.func.id, pol)
    return None


@rule('C11', 'C11-R7', 'the alternative-hit filter (--filterXA) answers "some alternative hit lies on a contig that is not an _alt contig": an existential '
                       'over the XA hits, decided on the quantifier structure of the function however it is written (loop with early return, any / all)')
def r7(ctx):
    f = ctx.fn(COUNTTABLE, 'read_has_alternative_hits_to_non_alts')
    verdicts = []          # (quantifier, is-alt polarity) per way the function computes a non-trivial answer
    undecided = None
    # (1) loops with an early constant return decided by the element test, followed by the opposite constant
    for l in [x for x in walk_no_nested(f) if isinstance(x, ast.For)]:
        elem = {n.id for n in ast.walk(l.target) if isinstance(n, ast.Name)}
        for s_ in walk_no_nested(l):
            if isinstance(s_, ast.Assign) and names_in(s_.value) & elem:
                elem |= {n.id for t_ in s_.targets for n in ast.walk(t_) if isinstance(n, ast.Name)}
        for r_ in [x for x in walk_no_nested(l) if isinstance(x, ast.Return)]:
            if not (isinstance(r_.value, ast.Constant) and isinstance(r_.value.value, bool)):
                undecided = f'early return of `{src(r_.value) if r_.value is not None else None}` inside the hit loop'
                continue
            pols = [p_ for p_ in (_endswith_alt_polarity(t_, pol, elem) for t_, pol in (reach_conds(l.body, r_) or [])) if p_ is not None]
            if len(pols) != 1:
                undecided = 'early return in the hit loop is not decided by one `_alt` test'
                continue
            # the value returned when no element triggers the early return: the last return of the function
            tail = [x for x in f.body if isinstance(x, ast.Return)]
            if not tail or not isinstance(tail[-1].value, ast.Constant) or tail[-1].value.value is r_.value.value:
                undecided = 'fall-through value of the hit loop not understood'
                continue
            verdicts.append(('any', pols[0]) if r_.value.value is True else ('all', not pols[0]))
    # (2) returns of a quantified expression
    for r_ in [x for x in walk_no_nested(f) if isinstance(x, ast.Return) and x.value is not None and not isinstance(x.value, ast.Constant)]:
        q = _quantifier_of(r_.value, f)
        if q is None:
            undecided = f'return value `{src(r_.value)[:60]}` is not a quantifier over the hits'
        else:
            verdicts.append(q)
    # (3) constant answers outside loops must be False (no tag / no hit -> no alternative hit)
    const_true = [x for x in walk_no_nested(f) if isinstance(x, ast.Return) and isinstance(x.value, ast.Constant) and x.value.value is True
                  and not any(any(y is x for y in walk_no_nested(l)) for l in walk_no_nested(f) if isinstance(l, ast.For))]
    if undecided and not verdicts:
        ctx.emit('C11-R7', False, COUNTTABLE, f, f'alternative-hit filter not understood: {undecided}', key='xa-filter-quantifier', undecided=True)
        return
    ok = bool(verdicts) and all(v == ('any', False) for v in verdicts) and not const_true and not undecided
    ctx.emit('C11-R7', ok, COUNTTABLE, f, 'the filter answers: some XA hit is on a contig that does not end with _alt' if ok else
             f'the filter computes {["%s hit %s on an _alt contig" % ("some" if q == "any" else "every", "is" if p_ else "is not") for q, p_ in verdicts]} instead of "some hit is not on an _alt contig"'
             + (f'; {undecided}' if undecided else '') + ('; a constant True answer outside the hit loop' if const_true else ''), key='xa-filter-quantifier',
             what='read_has_alternative_hits_to_non_alts: the quantifier over the XA hits is wrong (reads with mixed _alt / regular hits are kept)')
    # the hits are the ;-separated entries of the XA tag, the contig is their first ,-separated field
    txt = src(f)
    modh = ctx.ix.module(COUNTTABLE)
    for c_ in walk_no_nested(f):
        if isinstance(c_, ast.Call) and isinstance(c_.func, ast.Name) and c_.func.id in modh.defs and c_.func.id != f.name:
            txt += '\n' + src(modh.defs[c_.func.id][0])           # a helper of the module that parses one hit
    okp = "get_tag('XA')" in txt and ".split(';')" in txt and ".split(',')" in txt
    ctx.emit('C11-R7', okp, COUNTTABLE, f, 'hits are the ;-separated XA entries, the contig their first field', key='xa-filter-parsing', nontrivial=False)


@rule('C11', 'C11-R8', 'read_should_be_counted is THE filter: once it accepted a read, assignReads does not leave early on another test of the read (a read whose bin '
                       'coordinate is a read attribute or an aliased tag rather than a literal tag would silently never be counted)')
def r8(ctx):
    g = ctx.fn(COUNTTABLE, AR)
    rets = [r for r in walk_no_nested(g) if isinstance(r, ast.Return) and r is not g.body[-1]]
    n = 0
    bad = []
    for r in rets:
        for t_, pol in (reach_conds(g.body, r) or []):
            n += 1
            calls = [c for c in ast.walk(t_) if isinstance(c, ast.Call) and (dotted(c.func) or '').endswith('read_should_be_counted')]
            if calls:
                continue
            if 'read' in names_in(t_):
                bad.append((r, t_, pol))
    ctx.need('C11-R8', len(rets), 1, 'early returns of assignReads')
    for r, t_, pol in bad[:2]:
        ctx.emit('C11-R8', False, COUNTTABLE, r, f'{AR} returns early when `{"" if pol else "not "}{src(t_)}`: a second, undocumented filter on the read after read_should_be_counted accepted it',
                 key='no-filter-after-acceptance', what=f'{AR}: extra read filter `{src(t_)[:60]}` outside read_should_be_counted')
    if not bad:
        ctx.emit('C11-R8', True, COUNTTABLE, g, f'{len(rets)} early return(s) of {AR}: only the verdict of read_should_be_counted leaves early', key='no-filter-after-acceptance')


def assign_model(ctx):
    """assignReads run by the abstract interpreter on a model read (tags DS / GN / SM with fixed values) for every combination of binning, by-value counting,
    feature order, pairing and window list: the table must hold exactly the cells the options prescribe.  (ok, cases, witness) or None when outside the
    interpreted subset.  Cached per run."""
    if hasattr(ctx, '_assign_model'):
        return ctx._assign_model
    import collections
    from ..consteval import run_function, Raised, Unfoldable, module_scope
    ctx._assign_model = None
    f = ctx.fn(COUNTTABLE, AR)
    try:
        mscope = {k_: v_ for k_, v_ in module_scope(ctx.ix, COUNTTABLE).items() if k_ not in (RS, 'readTag', 'coordinate_to_bins')}
    except Exception:
        mscope = {}
    params = [a.arg for a in f.args.args]
    if params[:6] != ['read', 'countTable', 'args', 'joinFeatures', 'featureTags', 'sampleTags']:
        return None
    vals = {'DS': '1500', 'GN': '7', 'SM': 'cellA', 'ZZ': '0', 'NG': '-2.5', 'EX': '2.5e-1'}       # by-value tags hold whatever float() reads: negative numbers, exponents
    windows = [(1000, 2000), (1500, 2500), (9500, 10500)]

    class Table(dict):
        def __missing__(self, k):
            self[k] = collections.Counter()
            return self[k]

    def hook(ev, call, env):
        d = dotted(call.func) or ''
        if d == RS:
            return True
        if d == 'readTag':
            a = [ev.ev(x, env) for x in call.args]
            return vals[a[1]]
        if d in ('coordinate_to_bins',):
            return list(windows)
        if d.endswith('.has_tag'):
            a = [ev.ev(x, env) for x in call.args]
            return a[0] == world['hits'] or (world['hits'] == 'XA+NH' and a[0] in ('XA', 'NH'))
        if d.endswith('.get_tag'):
            a = [ev.ev(x, env) for x in call.args]
            if a[0] == world['hits'] or (world['hits'] == 'XA+NH' and a[0] in ('XA', 'NH')):
                return {'XA': 'h1;h2;h3', 'NH': '2'}[a[0]]
            raise Raised('KeyError', a[0])
        return NotImplemented
    n = 0
    world = {'hits': None}
    try:
        for binv, byv, tags, paired, nodiv, keep, mate, hits, join, mate_unmapped in itertools.product((None, 1000), (None, 'GN', 'ZZ', 'NG', 'EX'), (['DS', 'GN'], ['GN', 'DS'], ['DS'], ['GN', 'ZZ', 'DS'], ['NG', 'DS'], ['DS', 'EX']), (False, True), (False, True), (False, True),
                                                                                              (None, 'r1only', 'r2only'), (None, 'XA', 'NH', 'XA+NH'), (True, False), (False, True)):        # both tags present: the alternative-hit list wins
            if byv is not None and byv not in tags:
                continue
            if not join and (binv is not None or keep or mate or hits or (byv is not None and len(tags) < 2)):
                continue            # features counted one by one: crossed with by-value counting and the pairing weight only
            if mate_unmapped and (not paired or keep or hits):
                continue
            if binv is not None and 'DS' not in tags:
                continue
            if (mate or hits) and (keep or tags != ['DS', 'GN']):
                continue            # the weighting options are crossed with binning / by-value / pairing, not with every key layout again
            world['hits'] = hits
            env = dict(mscope)
            env.update({'args.bin': binv, 'args.binTag': 'DS', 'args.byValue': byv, 'args.r1only': mate == 'r1only', 'args.r2only': mate == 'r2only', 'args.doNotDivideFragments': nodiv,
                   'args.divideMultimapping': hits is not None, 'args.splitFeatures': False, 'args.sliding': None, 'args.keepOverBounds': keep, 'args.ref_lengths': {'chr1': 10000},
                   'args.bedfile': None, 'args.featureDelimiter': ',', 'read.reference_name': 'chr1', 'read.is_paired': paired, 'read.mate_is_unmapped': mate_unmapped,
                   # a pair can be mapped without being flagged proper (discordant / mate on another contig): the weight does not look at that flag
                   'read.is_proper_pair': paired and not mate_unmapped and not nodiv and binv is not None, 'read.is_read1': True, 'read.is_read2': False, 'read.is_unmapped': False,
                   'read.is_duplicate': False, 'read.is_qcfail': False, 'read.mapping_quality': 60, 'read.reference_start': 1500, 'read.reference_end': 1540})
            table = Table()
            n += 1
            case = {'bin': binv, 'binTag': 'DS', 'byValue': byv, 'featureTags': tags, 'paired with mapped mate': paired, 'doNotDivideFragments': nodiv, 'keepOverBounds': keep, 'tag values': vals,
                    'mate selection': mate, 'divideMultimapping with tag': hits, 'joinFeatures': join, 'mate unmapped': mate_unmapped}
            from ..consteval import Instance
            args_o = Instance(attrs={k_[5:]: v_ for k_, v_ in env.items() if k_.startswith('args.')})
            read_o = Instance(attrs={k_[5:]: v_ for k_, v_ in env.items() if k_.startswith('read.')})
            for _ in range(2):
                run_function(f, [read_o, table, args_o, join, list(tags), ['SM'], {}, None], env=dict(env), call_hook=hook, budget=40000)
            feats = [vals[t] for t in tags if not (binv is not None and t == 'DS') and not (byv is not None and t == byv)]
            w0 = 1 if mate else (0.5 if paired and not mate_unmapped and not nodiv else 1)
            if hits:
                w0 = w0 / (3 if hits in ('XA', 'XA+NH') else 2)
            w = float(vals[byv]) if byv is not None else w0
            want = {}
            if not join:
                for t_ in tags:
                    if byv is not None and t_ == byv:
                        k_, add_ = tuple(feats), float(vals[byv])
                    else:
                        k_, add_ = (vals[t_],), w0
                    cell_ = k_[0] if len(k_) == 1 else k_
                    want[cell_] = want.get(cell_, 0) + 2 * add_
            elif binv is not None:
                for a_, b_ in windows:
                    if keep or not (a_ < 0 or b_ > 10000):
                        want[tuple(feats + [a_, b_])] = 2 * w
            else:
                want[tuple(feats) if len(feats) != 1 else feats[0]] = 2 * w
            got = {k_: dict(v_) for k_, v_ in table.items()}
            if got != {('cellA',): want}:
                ctx._assign_model = (False, n, dict(case, table=str(got), expected=str({('cellA',): want})))
                return ctx._assign_model
    except (Unfoldable, Raised):
        return None
    except Exception:
        return None
    ctx._assign_model = (True, n, None)
    return ctx._assign_model


@rule('C11', 'C11-R9', 'a counted read lands under its own sample and feature values at its weight: assignReads, run by the abstract interpreter on a model read for every combination '
                       'of binning / by-value counting / feature order / pairing / bounds option (each read added twice), leaves exactly the cells the options prescribe - the key holds '
                       'every feature tag except the bin tag WHEN binning is on and the value tag WHEN by-value counting is on, windows outside the contig are dropped unless kept, '
                       'and the second read adds to the first')
def r9(ctx):
    f = ctx.fn(COUNTTABLE, AR)
    m = assign_model(ctx)
    if m is None:
        ctx.emit('C11-R9', True, COUNTTABLE, f, 'assignReads uses constructs outside the interpreted subset: decided by the structural rules only', key='assignReads-model', nontrivial=False)
        return
    ok, n, wit = m
    ctx.counters['interpreted_cases'] = ctx.counters.get('interpreted_cases', 0) + n
    ctx.emit('C11-R9', ok, COUNTTABLE, f, f'{n} option combinations: the table holds exactly the prescribed cells' if ok else f'option combination {wit}', key='assignReads-model', witness=wit,
             what='assignReads: a counted read is stored under a key / weight other than its own feature values and documented weight')


META = {
    'text': ('Decides: every filter option of the parser is consulted by read_should_be_counted and can only reject (single trailing return True); '
             'each filter test equals its documented predicate on every case (mate selection, MAPQ <, proper pairs, indels, soft clips, edit distance '
             '"given and NM > limit", unmapped or dedup&(RR|duplicate)); numeric options are never tested by truthiness; alignment attributes are used '
             'only after the unmapped rejection; the weight equals the documented rule on all 2^k combinations of (mate selection, doNotDivideFragments, '
             'paired, mate mapped, divideMultimapping, XA, NH) including "divide the computed weight by the hit count"; every increment reaching the '
             'table is that weight (or the tag value under byValue); sample and feature come from the same read. Does NOT decide equality with an '
             'independent recomputation over BAM files.'),
    'technique': 'static analysis: option-coverage set comparison, dominator check of None-able attributes, exhaustive truth-table enumeration of filter predicates and of the abstractly interpreted weight computation; small-scope abstract execution of assignReads on a model read for every combination of binning / by-value / pairing / mate selection / multimapping / joined or single features (rule R9, and wherever the structural weight rule cannot follow); the read filter run on an unsorted blacklist where the scan lives in a helper',
    'design_ref': 'DESIGN.md section 5, C11',
}


from . import shared as _shared
_shared.register('C11', 'C11')
