"""Slot tables: repository-specific names the rules are instantiated with. Each entry was confirmed by reading
the code; the reason is on the line. Rules fail with ANALYSIS-ERROR (exit 2) when a slot no longer resolves."""

P = 'singlecellmultiomics/'
BTM = P + 'universalBamTagger/bamtagmultiome.py'
TAGGING = P + 'universalBamTagger/tagging.py'
BAMFUNC = P + 'bamProcessing/bamFunctions.py'
BAMPROC_INIT = P + 'bamProcessing/__init__.py'
BINCOUNTS = P + 'bamProcessing/bamBinCounts.py'
COUNTTABLE = P + 'bamProcessing/bamToCountTable.py'
BINNING = P + 'utils/binning.py'
SEQUTILS = P + 'utils/sequtils.py'
LOADER = P + 'modularDemultiplexer/demultiplexingStrategyLoader.py'
BASEDEMUX = P + 'modularDemultiplexer/baseDemultiplexMethods.py'
DEMUXMODS = P + 'modularDemultiplexer/demultiplexModules/'
FQITER = P + 'fastqProcessing/fastqIterator.py'
FQHANDLE = P + 'fastqProcessing/fastqHandle.py'
HANDLELIM = P + 'pyutils/handlelimiter.py'
BARCODEPARSER = P + 'barcodeFileParser/barcodeFileParser.py'
TAGS = P + 'tags/tags.py'
MOLECULE = P + 'molecule/molecule.py'
MOLITER = P + 'molecule/iterator.py'
FRAGMENT = P + 'fragment/fragment.py'
FRAG_NLA = P + 'fragment/nlaIII.py'
FRAG_CHIC = P + 'fragment/chic.py'
TAPS = P + 'molecule/taps.py'
FEATURES = P + 'features/features.py'
ALLELES = P + 'alleleTools/alleleTools.py'
UBT = P + 'universalBamTagger/universalBamTagger.py'

# C20: status messages that do NOT claim success (prefix match on the literal part of the message)
NON_SUCCESS_STATUS = {
    'unfinished': 'initial marker',
    'FAIL': 'failure marker',
    'SUBMITTED': 'cluster: per-contig job submitted, not finished',
    'Submitting': 'cluster: submission in progress ("If this file remains, a job failed")',
}
# C20: calls whose failure may be swallowed without making the output incomplete (cleanup / reporting only)
BENIGN_CALLS = {
    'print', 'sleep', 'time.sleep', 'shutil.rmtree', 'os.remove', 'os.rmdir', 'sys.stderr.write', 'sys.stdout.write',
    'str', 'len', 'repr', 'traceback.format_exc', 'traceback.print_exc',
}
