"""N5 - alpha-canonicalisation of local names against a reference snapshot (DESIGN section 9).

Many rules name a local variable of the analysed function (`current`, `pos_s`, `strategyYields` ...).  A maintenance edit that only
re-spells such a name must not change a verdict.  For every function that also exists in the reference snapshot
(sa/reference/locals.json, produced by tools/pin_reference.py from the tree the rules were written against) each bound name gets a
*use signature*: the multiset of the statements / header expressions it occurs in, printed with the name itself replaced by `@` and every
other bound name of the function replaced by `_`.  Signatures do not depend on any spelling of a local, so a renamed variable has the
signature of its reference counterpart; it is renamed back (in the parsed tree only) when the match is unambiguous:

  * names that exist on both sides are kept (identity);
  * the remaining current names are matched to the remaining reference names by weighted Jaccard similarity of their signatures; a pair
    is accepted only when it is the mutual best match, the similarity is >= 0.34 and the runner-up is clearly worse (margin 0.15);
  * everything else is left untouched (the rule then sees the current spelling, exactly as without this pass).

The snapshot is consulted ONLY to choose spellings; no verdict is derived from it, and a function that was restructured beyond
recognition is simply not renamed.
"""
import ast
import json
import os
from collections import Counter

REF_PATH = os.path.join(os.path.dirname(os.path.abspath(__file__)), 'reference', 'locals.json')
_REF = None


def reference():
    global _REF
    if _REF is None:
        try:
            with open(REF_PATH) as h:
                _REF = json.load(h)
        except Exception:
            _REF = {}
    return _REF


SKIP = {'self', 'cls'}


def _own_nodes(fdef):
    """nodes of a function excluding nested function/class definitions (lambdas and comprehensions included)"""
    st = list(ast.iter_child_nodes(fdef))
    while st:
        n = st.pop()
        yield n
        if isinstance(n, (ast.FunctionDef, ast.AsyncFunctionDef, ast.ClassDef)):
            continue
        st.extend(ast.iter_child_nodes(n))


def bound_names(fdef, _cache={}):
    return set(_bound_names(fdef))


def _bound_names(fdef):
    out = set()
    a = fdef.args
    for x in list(a.posonlyargs) + list(a.args) + list(a.kwonlyargs) + [y for y in (a.vararg, a.kwarg) if y]:
        out.add(x.arg)
    comp_only = {}
    for n in _own_nodes(fdef):
        if isinstance(n, ast.Name) and isinstance(n.ctx, (ast.Store, ast.Del)):
            out.add(n.id)
        elif isinstance(n, ast.ExceptHandler) and n.name:
            out.add(n.name)
        elif isinstance(n, ast.Lambda):
            for x in n.args.args:
                out.add(x.arg)
    for n in _own_nodes(fdef):
        if isinstance(n, (ast.Global, ast.Nonlocal)):
            out -= set(n.names)
    return out - SKIP


def _units(fdef):
    """(node-or-tuple describing a unit, kind) for every simple statement and compound-statement header of the function"""
    def rec(stmts):
        for s in stmts:
            if isinstance(s, (ast.FunctionDef, ast.AsyncFunctionDef, ast.ClassDef)):
                continue
            if isinstance(s, ast.If):
                yield ('if', [s.test])
                yield from rec(s.body)
                yield from rec(s.orelse)
            elif isinstance(s, ast.While):
                yield ('while', [s.test])
                yield from rec(s.body)
                yield from rec(s.orelse)
            elif isinstance(s, (ast.For, ast.AsyncFor)):
                yield ('for', [s.target, s.iter])
                yield from rec(s.body)
                yield from rec(s.orelse)
            elif isinstance(s, (ast.With, ast.AsyncWith)):
                for it in s.items:
                    yield ('with', [it.context_expr] + ([it.optional_vars] if it.optional_vars is not None else []))
                yield from rec(s.body)
            elif isinstance(s, ast.Try):
                yield from rec(s.body)
                for h in s.handlers:
                    yield ('except', [h.type] if h.type is not None else [], h.name)
                    yield from rec(h.body)
                yield from rec(s.orelse)
                yield from rec(s.finalbody)
            else:
                yield ('stmt', [s])
    yield from rec(fdef.body)


class _Mask(ast.NodeTransformer):
    def __init__(self, bound, focus):
        self.bound, self.focus = bound, focus

    def visit_Name(self, node):
        if node.id == self.focus:
            return ast.copy_location(ast.Name(id='__AT__', ctx=node.ctx), node)
        if node.id in self.bound:
            return ast.copy_location(ast.Name(id='__', ctx=node.ctx), node)
        return node

    def visit_arg(self, node):
        if node.arg == self.focus:
            node.arg = '__AT__'
        elif node.arg in self.bound:
            node.arg = '__'
        return node

    def visit_Constant(self, node):
        # long string literals (messages) are not part of a variable's role
        if isinstance(node.value, str) and len(node.value) > 12:
            return ast.copy_location(ast.Constant(value='~'), node)
        return node


class _Mark(ast.NodeTransformer):
    """replaces every bound name by a unique marker so that one unparse per unit serves all variables"""
    def __init__(self, bound):
        self.bound = bound

    def visit_Name(self, node):
        if node.id in self.bound:
            return ast.copy_location(ast.Name(id=f'\x01{node.id}\x02', ctx=node.ctx), node)
        return node

    def visit_arg(self, node):
        if node.arg in self.bound:
            node.arg = f'\x01{node.arg}\x02'
        return node

    def visit_Constant(self, node):
        if isinstance(node.value, str) and len(node.value) > 12:
            return ast.copy_location(ast.Constant(value='~'), node)
        return node


_MARK = None


def signatures(fdef):
    """name -> Counter(context string)"""
    import copy
    import re
    global _MARK
    if _MARK is None:
        _MARK = re.compile('\x01([^\x02]*)\x02')
    bound = bound_names(fdef)
    sig = {b: Counter() for b in bound}
    a = fdef.args
    for i, x in enumerate(list(a.posonlyargs) + list(a.args)):
        if x.arg in sig:
            sig[x.arg][f'<param {i}>'] += 2
    for x in a.kwonlyargs:
        if x.arg in sig:
            sig[x.arg]['<kwonly>'] += 1
    marker = _Mark(bound)
    for u in _units(fdef):
        kind, exprs = u[0], u[1]
        hname = u[2] if kind == 'except' and len(u) > 2 else None
        parts = []
        for e in exprs:
            try:
                parts.append(ast.unparse(marker.visit(copy.deepcopy(e))))
            except Exception:
                parts.append('?')
        text = f'{kind}: ' + ' ; '.join(parts)
        present = set(_MARK.findall(text))
        if hname and hname in bound:
            present.add(hname)
        for v in present:
            t = _MARK.sub(lambda m: '@' if m.group(1) == v else '_', text)
            if kind == 'except':
                t += ' ; as ' + ('@' if hname == v else '_' if hname else '-')
            sig[v][t] += 1
    return sig


def similarity(a, b):
    keys = set(a) | set(b)
    mn = sum(min(a.get(k, 0), b.get(k, 0)) for k in keys)
    mx = sum(max(a.get(k, 0), b.get(k, 0)) for k in keys)
    return mn / mx if mx else 0.0


def match(cur_sig, ref_sig, thr=0.34, margin=0.15):
    """mapping current name -> reference name (only for names that differ)"""
    cur_only = [c for c in cur_sig if c not in ref_sig]
    ref_only = [r for r in ref_sig if r not in cur_sig]
    if not cur_only or not ref_only:
        return {}
    sims = {(c, r): similarity(cur_sig[c], Counter(ref_sig[r])) for c in cur_only for r in ref_only}
    out = {}
    for c in cur_only:
        ranked = sorted(((sims[(c, r)], r) for r in ref_only), reverse=True)
        if not ranked or ranked[0][0] < thr:
            continue
        best, r = ranked[0]
        if len(ranked) > 1 and ranked[1][0] > best - margin:
            continue
        # mutual best
        back = sorted(((sims[(c2, r)], c2) for c2 in cur_only), reverse=True)
        if back[0][1] != c or (len(back) > 1 and back[1][0] > best - margin):
            continue
        out[c] = r
    return out


class _Rename(ast.NodeTransformer):
    def __init__(self, mapping):
        self.m = mapping

    def visit_Name(self, node):
        if node.id in self.m:
            node.id = self.m[node.id]
        return node

    def visit_arg(self, node):
        if node.arg in self.m:
            node.arg = self.m[node.arg]
        return node

    def visit_ExceptHandler(self, node):
        if node.name in self.m:
            node.name = self.m[node.name]
        self.generic_visit(node)
        return node

    def visit_keyword(self, node):
        self.generic_visit(node)
        return node


def functions(tree):
    """(qualname, def) for every function of a module; a repeated qualname gets the suffix #k (k-th definition)"""
    seen = Counter()

    def rec(node, prefix):
        for ch in ast.iter_child_nodes(node):
            if isinstance(ch, (ast.FunctionDef, ast.AsyncFunctionDef)):
                q = prefix + ch.name
                seen[q] += 1
                yield (q if seen[q] == 1 else f'{q}#{seen[q]}'), ch
                yield from rec(ch, q + '.')
            elif isinstance(ch, ast.ClassDef):
                yield from rec(ch, prefix + ch.name + '.')
            else:
                yield from rec(ch, prefix)
    yield from rec(tree, '')


def apply(tree, relpath):
    """rename locals of the module's functions to the reference spelling where the match is unambiguous; returns {qualname: mapping}"""
    ref = reference().get(relpath)
    applied = {}
    if not ref:
        return applied
    for q, f in functions(tree):
        rs = ref.get(q)
        if not rs:
            continue
        # nothing to do when every bound name of the function is spelled as in the reference (the common case: cheap test first)
        bn = bound_names(f)
        if not (bn - set(rs)) or not (set(rs) - bn):
            continue
        try:
            cs = signatures(f)
        except RecursionError:
            continue
        m = match(cs, rs)
        if m:
            # never rename onto a name that is used (free or bound) in the current function
            used = {n.id for n in ast.walk(f) if isinstance(n, ast.Name)} | {a.arg for a in ast.walk(f) if isinstance(a, ast.arg)}
            m = {c: r for c, r in m.items() if r not in used}
            if m:
                rn = _Rename(m)
                for ch in ast.iter_child_nodes(f):
                    rn.visit(ch)
                applied[q] = m
    return applied


def snapshot(tree):
    return {q: {v: dict(c) for v, c in signatures(f).items()} for q, f in functions(tree)}
