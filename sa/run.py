"""CLI: /venv/bin/python -m sa.run <ID> [--tier quick|thorough]   (cwd=/verif)

exit 0: every obligation discharged (open known findings are printed as KNOWN-FINDING lines)
exit 1: a violation not listed in known_findings.json  -> `VIOLATION property=<id> replay=<path>`
exit 2: ANALYSIS-ERROR (vanished anchor, idiom the rule cannot interpret, checker bug) - never a verdict
"""
import argparse
import importlib
import json
import os
import sys
import time
import traceback

from .core import (RULES, run_rules, load_known, match_known, write_evidence, VERIF, VIOLATED, UNDECIDED, DISCHARGED)
from .index import RepoIndex, AnalysisError

ALL = [f'C{i:02d}' for i in range(1, 21)]


def load_rules(prop=None):
    for p in ([prop] if prop else ALL):
        try:
            importlib.import_module(f'sa.rules.{p}')
        except ModuleNotFoundError as e:
            if f'sa.rules.{p}' not in str(e):
                raise


def check(prop, tier, seed, overlay=None, quiet=False, write=True, only=None):
    """Returns (exit code, ctx, lines)."""
    t0 = time.time()
    lines = []
    ctx = None
    try:
        load_rules(prop)
        if prop not in RULES:
            raise AnalysisError(f'no rules registered for {prop}')
        ix = RepoIndex(overlay=overlay)
        ctx = run_rules(prop, ix, tier, only=only)
        extra = None
        calib_lines = []
        if tier == 'thorough' and overlay is None and only is None:
            # self-test of the checker on the sources at hand: planted defects (hand-written overlays + the stored seeded changes) must be
            # reported, behaviour-preserving edits (overlays + the stored keep patches) must not.  It is a statement about the checker, never
            # about /repo: a miss is recorded in the evidence and printed, it does not change the verdict or the exit code.
            from . import calib
            try:
                c = calib.run_calibration(prop, seed)
            except AnalysisError as e_:
                c = {'break_total': 0, 'break_fired': 0, 'keep_total': 0, 'keep_silent': 0, 'skipped': [], 'failures': [{'kind': 'calibration not run', 'got': str(e_)[:300]}], 'fired': []}
            extra = {'calibration': c}
            calib_lines.append(f"CALIBRATION: {c['break_fired']}/{c['break_total']} planted defects reported, {c['keep_silent']}/{c['keep_total']} behaviour-preserving edits silent, "
                               f"{len(c['skipped'])} not applicable to the current sources")
            for f_ in c['failures'][:5]:
                calib_lines.append('CALIBRATION-NOTE: ' + json.dumps(f_, default=str)[:400])
        known = load_known()
        known_hits = []
        new = []
        undec = []
        for o in ctx.obligations:
            if o.status == VIOLATED:
                k = match_known(known, prop, o)
                if k:
                    if o.construct not in [h['construct'] for h in known_hits]:
                        known_hits.append({'construct': o.construct, 'rule': o.rule, 'what': k.get('what', o.what)})
                else:
                    new.append(o)
            elif o.status == UNDECIDED:
                undec.append(o)
        for h in known_hits:
            lines.append(f"KNOWN-FINDING: property={prop} {h['rule']} {h['what']}")
        code = 0
        if ctx.rule_errors and not new:
            raise AnalysisError(ctx.rule_errors[0][1])
        if undec and not new:
            o = undec[0]
            raise AnalysisError(f'{o.rule} undecided at {o.site}: {o.detail}')
        for rid_, msg_ in ctx.rule_errors:
            lines.append(f'  note: {rid_} could not be evaluated on this tree: {msg_[:200]}')
        if new:
            code = 1
            os.makedirs(os.path.join(VERIF, 'evidence', 'replay'), exist_ok=True)
            for i, o in enumerate(new):
                rp = os.path.join(VERIF, 'evidence', 'replay', f'{prop}-{i}.json')
                if write:
                    with open(rp, 'w') as h:
                        json.dump({'property': prop, **o.as_dict()}, h, indent=1, default=str)
                lines.append(f'  {o.rule} violated at {o.site}: {o.detail}')
                lines.append(f'VIOLATION property={prop} replay={rp}')
        if write:
            write_evidence(prop, tier, seed, ctx, time.time() - t0, len(new), known_hits, extra=extra)
        lines.extend(calib_lines)
        if not quiet:
            n = len(ctx.obligations)
            lines.insert(0, f'[{prop}] tier={tier} obligations={n} discharged={sum(o.status == DISCHARGED for o in ctx.obligations)} '
                            f'violated={sum(o.status == VIOLATED for o in ctx.obligations)} known={len(known_hits)} '
                            f'files={len(ix.consulted)} wall={time.time() - t0:.2f}s')
        return code, ctx, lines
    except AnalysisError as e:
        lines.append(f'ANALYSIS-ERROR property={prop} {e}')
        if write:
            write_evidence(prop, tier, seed, ctx, time.time() - t0, 0, [], error=str(e))
        return 2, ctx, lines
    except Exception as e:  # checker bug: never a verdict about /repo
        lines.append(f'ANALYSIS-ERROR property={prop} internal error: {type(e).__name__}: {e}')
        lines.append(traceback.format_exc())
        if write:
            try:
                write_evidence(prop, tier, seed, ctx, time.time() - t0, 0, [], error=f'{type(e).__name__}: {e}')
            except Exception:
                pass
        return 2, ctx, lines


def main(argv=None):
    ap = argparse.ArgumentParser()
    ap.add_argument('prop', nargs='?')
    ap.add_argument('--tier', default=os.environ.get('VERIF_TIER') or 'quick', choices=['quick', 'thorough'])
    ap.add_argument('--selfcheck', action='store_true')
    ap.add_argument('--replay')
    ap.add_argument('--all', action='store_true')
    ap.add_argument('--verbose', '-v', action='store_true')
    a = ap.parse_args(argv)
    try:
        seed = int(os.environ.get('VERIF_SEED', '0') or 0)
    except ValueError:
        seed = 0
    if a.selfcheck:
        from . import selfcheck
        return selfcheck.main()
    if a.replay:
        with open(a.replay) as h:
            r = json.load(h)
        code, ctx, lines = check(r['property'], 'quick', seed, write=False, only=[r['rule']])
        print(f"replaying {r['rule']} / {r['construct']}")
        hit = [o for o in (ctx.obligations if ctx else []) if o.construct == r['construct']]
        for o in hit:
            print(json.dumps(o.as_dict(), indent=1, default=str))
        if not hit:
            print('construct no longer present on the current tree')
        return 1 if any(o.status == VIOLATED for o in hit) else 0
    props = ALL if a.all else [a.prop]
    worst = 0
    for p in props:
        code, ctx, lines = check(p, a.tier, seed)
        for l in lines:
            print(l)
        if a.verbose and ctx:
            for o in ctx.obligations:
                print(f'   {o.status:10s} {o.rule:8s} {o.site}: {o.detail}')
            for n in ctx.notes:
                print('   note:', n)
        worst = max(worst, code)
    return worst


if __name__ == '__main__':
    sys.exit(main())
