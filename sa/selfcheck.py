"""MANIFEST.setup_cmd: parse the package, validate known_findings.json, import every rule module. Nothing is installed."""
import json
import os
import sys

from .core import VERIF, RULES
from .index import RepoIndex


def main():
    ix = RepoIndex()
    n = 0
    bad = []
    for p in ix.pyfiles():
        try:
            ix.module(p)
            n += 1
        except Exception as e:
            bad.append((p, str(e)))
    with open(os.path.join(VERIF, 'known_findings.json')) as h:
        k = json.load(h)
    for e in k:
        assert e['status'] in ('open', 'fixed'), e
        assert all(x in e for x in ('property', 'rule', 'construct', 'what')), e
    from .run import load_rules
    load_rules()
    print(f'selfcheck: parsed {n} modules ({len(bad)} unparsable), {len(k)} known-finding entries, '
          f'rules for {sorted(RULES)}')
    return 0


if __name__ == '__main__':
    sys.exit(main())
