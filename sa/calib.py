"""Calibration (thorough tier): every rule set is re-run on in-memory overlays of the *current* sources.

* 'break' overlays plant one defect (a realistic edit that still compiles); the named rule must report a violation
  that the unmodified tree does not have.
* 'keep' overlays are behaviour-preserving refactorings; no rule may report anything the unmodified tree does not.

Overlays are text substitutions anchored on a snippet of the current file.  When the snippet is not present (the
repository changed there) the overlay is *skipped* and listed - calibration is a test of the checker, never a verdict
about /repo.  A calibration miss (break not detected / keep flagged) is an ANALYSIS-ERROR (exit 2).
"""
import importlib
import random

from .core import run_rules, VIOLATED, UNDECIDED
from .index import RepoIndex, AnalysisError


def _violations(prop, overlay):
    ix = RepoIndex(overlay=overlay)
    try:
        ctx = run_rules(prop, ix, 'quick')
    except AnalysisError as e:
        return None, str(e)
    v = {}
    for o in ctx.obligations:
        if o.status in (VIOLATED, UNDECIDED):
            v.setdefault(o.rule, set()).add(o.construct)
    return v, None


def apply_edits(ix, edits):
    """edits: list of (relpath, old, new[, count]). Returns overlay dict or None if a snippet is missing."""
    overlay = {}
    for e in edits:
        relpath, old, new = e[0], e[1], e[2]
        cur = overlay.get(relpath)
        if cur is None:
            try:
                cur = ix.read(relpath)
            except AnalysisError:
                return None
        want = e[3] if len(e) > 3 else 1
        if (want == 0 and cur.count(old) < 1) or (want != 0 and cur.count(old) != want):
            return None
        overlay[relpath] = cur.replace(old, new)
    for p, text in overlay.items():
        try:
            compile(text, p, 'exec')
        except SyntaxError:
            raise AnalysisError(f'calibration overlay for {p} does not compile')
    return overlay


def run_calibration(prop, seed=0):
    try:
        mod = importlib.import_module(f'sa.calib_data.{prop}')
    except ModuleNotFoundError:
        return {'break_total': 0, 'break_fired': 0, 'keep_total': 0, 'keep_silent': 0, 'skipped': [], 'failures': [],
                'note': 'no calibration overlays defined'}
    overlays = list(mod.OVERLAYS)
    random.Random(seed).shuffle(overlays)
    base_ix = RepoIndex()
    base, err = _violations(prop, None)
    if base is None:
        raise AnalysisError('baseline analysis failed during calibration: ' + err)
    res = {'break_total': 0, 'break_fired': 0, 'keep_total': 0, 'keep_silent': 0, 'skipped': [], 'failures': [],
           'fired': []}
    for ov in overlays:
        overlay = apply_edits(base_ix, ov['edits'])
        if overlay is None:
            res['skipped'].append(ov['name'])
            continue
        v, err = _violations(prop, overlay)
        if ov['kind'] == 'break':
            res['break_total'] += 1
            fired = False
            if v is None:
                # an analysis error also refuses the edit, but it must not be how a planted defect is "found"
                fired = bool(ov.get('accept_error'))
                new_rules = ['ANALYSIS-ERROR: ' + (err or '')[:120]]
            else:
                new_rules = sorted(r for r in v if v[r] - base.get(r, set()))
                want = ov.get('rules')
                fired = bool(new_rules) and (not want or any(r in want for r in new_rules))
            if fired:
                res['break_fired'] += 1
                res['fired'].append({'overlay': ov['name'], 'rules': new_rules})
            else:
                res['failures'].append({'overlay': ov['name'], 'kind': 'break not detected', 'got': new_rules})
        else:
            res['keep_total'] += 1
            if v is None:
                res['failures'].append({'overlay': ov['name'], 'kind': 'keep overlay gives analysis error', 'got': err})
                continue
            new_rules = sorted(r for r in v if v[r] - base.get(r, set()))
            if not new_rules:
                res['keep_silent'] += 1
            else:
                res['failures'].append({'overlay': ov['name'], 'kind': 'keep overlay flagged', 'got':
                                        {r: sorted(v[r] - base.get(r, set())) for r in new_rules}})
    return res


def main():
    import sys, json
    from .run import load_rules
    prop = sys.argv[1]
    load_rules(prop)
    r = run_calibration(prop)
    print(json.dumps(r, indent=1, default=str))
    return 0 if (r['break_fired'] == r['break_total'] and r['keep_silent'] == r['keep_total']) else 2


if __name__ == '__main__':
    raise SystemExit(main())
