"""Calibration (thorough tier): every rule set is re-run on in-memory overlays of the *current* sources.

* 'break' overlays plant one defect (a realistic edit that still compiles); the named rule must report a violation
  that the unmodified tree does not have.
* 'keep' overlays are behaviour-preserving refactorings; no rule may report anything the unmodified tree does not.

Overlays are text substitutions anchored on a snippet of the current file.  When the snippet is not present (the
repository changed there) the overlay is *skipped* and listed - calibration is a test of the checker, never a verdict
about /repo.  A calibration miss (break not detected / keep flagged) is an ANALYSIS-ERROR (exit 2).
"""
import importlib
import random

from .core import run_rules, VIOLATED, UNDECIDED
from .index import RepoIndex, AnalysisError


def _violations(prop, overlay):
    ix = RepoIndex(overlay=overlay)
    try:
        ctx = run_rules(prop, ix, 'quick')
    except AnalysisError as e:
        return None, str(e)
    v = {}
    for o in ctx.obligations:
        if o.status in (VIOLATED, UNDECIDED):
            v.setdefault(o.rule, set()).add(o.construct)
    if ctx.rule_errors and not any(o.status == VIOLATED for o in ctx.obligations):
        return None, ctx.rule_errors[0][1]
    return v, None


def apply_edits(ix, edits):
    """edits: list of (relpath, old, new[, count]). Returns overlay dict or None if a snippet is missing."""
    overlay = {}
    for e in edits:
        relpath, old, new = e[0], e[1], e[2]
        cur = overlay.get(relpath)
        if cur is None:
            try:
                cur = ix.read(relpath)
            except AnalysisError:
                return None
        want = e[3] if len(e) > 3 else 1
        if (want == 0 and cur.count(old) < 1) or (want != 0 and cur.count(old) != want):
            return None
        overlay[relpath] = cur.replace(old, new)
    for p, text in overlay.items():
        try:
            compile(text, p, 'exec')
        except SyntaxError:
            raise AnalysisError(f'calibration overlay for {p} does not compile')
    return overlay


def apply_unified_diff(ix, text):
    """In-memory application of a stored `git diff` to the *current* sources: returns {relpath: new text} or None when a hunk's context
    is not found (the repository changed there).  Line endings are normalised to LF on both sides."""
    import re
    files = []
    cur = None
    need_old = need_new = 0
    for line in text.replace('\r\n', '\n').split('\n'):
        if need_old > 0 or need_new > 0:
            tag = line[:1] if line else ' '
            if tag == '\\':
                continue                # "\ No newline at end of file"
            cur['hunks'][-1]['lines'].append((line if line else ' ').rstrip('\r'))
            if tag in (' ', '-'):
                need_old -= 1
            if tag in (' ', '+'):
                need_new -= 1
            continue
        if line.startswith('diff --git '):
            cur = {'old': None, 'new': None, 'hunks': []}
            files.append(cur)
        elif cur is None:
            continue
        elif line.startswith('--- '):
            cur['old'] = None if line[4:].strip() == '/dev/null' else line[4:].strip()[2:]
        elif line.startswith('+++ '):
            cur['new'] = None if line[4:].strip() == '/dev/null' else line[4:].strip()[2:]
        elif line.startswith('@@'):
            m = re.match(r'@@ -(\d+)(?:,(\d+))? \+(\d+)(?:,(\d+))? @@', line)
            need_old = int(m.group(2)) if m.group(2) is not None else 1
            need_new = int(m.group(4)) if m.group(4) is not None else 1
            cur['hunks'].append({'start': int(m.group(1)), 'lines': []})
    overlay = {}
    for f in files:
        if f['new'] is None:
            return None                     # file deletions are not modelled
        if f['old'] is None:
            overlay[f['new']] = '\n'.join(l[1:] for h in f['hunks'] for l in h['lines'] if l.startswith('+')) + '\n'
            continue
        if not f['hunks']:
            continue
        try:
            src_lines = ix.read(f['old']).replace('\r\n', '\n').split('\n')
        except AnalysisError:
            return None
        out = list(src_lines)
        shift = 0
        for h in f['hunks']:
            lines = h['lines']
            old = [l[1:] for l in lines if l[:1] in (' ', '-')]
            new = [l[1:] for l in lines if l[:1] in (' ', '+')]
            at = h['start'] - 1 + shift
            pos = None
            for delta in sorted(range(-400, 401), key=abs):
                k = at + delta
                if 0 <= k <= len(out) - len(old) and [x.rstrip() for x in out[k:k + len(old)]] == [x.rstrip() for x in old]:
                    pos = k
                    break
            if pos is None:
                return None
            out[pos:pos + len(old)] = new
            shift += len(new) - len(old)
        overlay[f['new']] = '\n'.join(out)
    for p_, t_ in overlay.items():
        if p_.endswith('.py'):
            try:
                compile(t_, p_, 'exec')
            except SyntaxError:
                return None
    return overlay


def stored_patches(prop):
    """seeded changes (must be reported) and behaviour-preserving edits (must stay silent) kept under /verif for this property"""
    import glob
    import os
    from .core import VERIF
    out = []
    for d in sorted(glob.glob(os.path.join(VERIF, 'seeded', f'{prop}-*', 'patch.diff'))):
        out.append({'name': 'seeded/' + os.path.basename(os.path.dirname(d)), 'kind': 'break', 'patch': d})
    for d in sorted(glob.glob(os.path.join(VERIF, 'keeps', f'{prop}-*', 'keep.diff'))):
        out.append({'name': 'keeps/' + os.path.basename(os.path.dirname(d)), 'kind': 'keep', 'patch': d})
    return out


def run_calibration(prop, seed=0):
    try:
        mod = importlib.import_module(f'sa.calib_data.{prop}')
    except ModuleNotFoundError:
        return {'break_total': 0, 'break_fired': 0, 'keep_total': 0, 'keep_silent': 0, 'skipped': [], 'failures': [],
                'note': 'no calibration overlays defined'}
    overlays = list(mod.OVERLAYS) + stored_patches(prop)
    random.Random(seed).shuffle(overlays)
    base_ix = RepoIndex()
    base, err = _violations(prop, None)
    if base is None:
        raise AnalysisError('baseline analysis failed during calibration: ' + err)
    res = {'break_total': 0, 'break_fired': 0, 'keep_total': 0, 'keep_silent': 0, 'skipped': [], 'failures': [],
           'fired': []}
    prepared = []
    for ov in overlays:
        if 'patch' in ov:
            with open(ov['patch']) as h_:
                overlay = apply_unified_diff(base_ix, h_.read())
        else:
            overlay = apply_edits(base_ix, ov['edits'])
        if overlay is None:
            res['skipped'].append(ov['name'])
            continue
        prepared.append((ov, overlay))
    # the overlays are independent: analysed in parallel worker processes (results are the same as in sequence)
    results = None
    import os
    if len(prepared) > 3 and not os.environ.get('SCMO_CALIB_SERIAL'):
        try:
            import multiprocessing as mp
            with mp.get_context('fork').Pool(min(16, len(prepared), os.cpu_count() or 1)) as pool:
                results = pool.starmap(_violations, [(prop, o_) for _ov, o_ in prepared])
        except Exception:
            results = None
    if results is None:
        results = [_violations(prop, o_) for _ov, o_ in prepared]
    for (ov, overlay), (v, err) in zip(prepared, results):
        if ov['kind'] == 'break':
            res['break_total'] += 1
            fired = False
            if v is None:
                # an analysis error also refuses the edit, but it must not be how a planted defect is "found"
                fired = bool(ov.get('accept_error'))
                new_rules = ['ANALYSIS-ERROR: ' + (err or '')[:120]]
            else:
                new_rules = sorted(r for r in v if v[r] - base.get(r, set()))
                want = ov.get('rules')
                fired = bool(new_rules) and (not want or any(r in want for r in new_rules))
            if fired:
                res['break_fired'] += 1
                res['fired'].append({'overlay': ov['name'], 'rules': new_rules})
            else:
                res['failures'].append({'overlay': ov['name'], 'kind': 'break not detected', 'got': new_rules})
        else:
            res['keep_total'] += 1
            if v is None:
                res['failures'].append({'overlay': ov['name'], 'kind': 'keep overlay gives analysis error', 'got': err})
                continue
            new_rules = sorted(r for r in v if v[r] - base.get(r, set()))
            if not new_rules:
                res['keep_silent'] += 1
            else:
                res['failures'].append({'overlay': ov['name'], 'kind': 'keep overlay flagged', 'got':
                                        {r: sorted(v[r] - base.get(r, set())) for r in new_rules}})
    return res


def main():
    import sys, json
    from .run import load_rules
    prop = sys.argv[1]
    load_rules(prop)
    r = run_calibration(prop)
    print(json.dumps(r, indent=1, default=str))
    return 0 if (r['break_fired'] == r['break_total'] and r['keep_silent'] == r['keep_total']) else 2


if __name__ == '__main__':
    raise SystemExit(main())
