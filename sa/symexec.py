"""Path-forking symbolic execution of a method body over linear forms (DESIGN D4).

* boolean *atoms* with fixed values (given by the rule: e.g. `R1.is_reverse` -> True) decide branches; tests that cannot be
  decided from the atoms fork the path and are recorded as residual guards (text, polarity);
* integer locals are tracked as linear forms over named symbols (rule-provided symbol table maps source text -> symbol);
* calls listed in `record` are recorded as events with their arguments evaluated.

Only the statement kinds the analysed functions use are supported; anything else is skipped conservatively (assigned names
become opaque).
"""
import ast
import copy

from .index import src, walk_no_nested, dotted, AnalysisError
from .cfg import eval3, UNK
from .domains import Lin, linform


class State:
    def __init__(self):
        self.env = {}
        self.guards = []
        self.events = []
        self.returned = None
        self.fields = {}
        self.exprs = {}      # local name -> expression it was assigned on this path (used to decide tests on temporaries)

    def clone(self):
        s = State()
        s.exprs = dict(self.exprs)
        s.env = dict(self.env)
        s.guards = list(self.guards)
        s.events = list(self.events)
        s.returned = self.returned
        s.fields = dict(self.fields)
        return s


class SymExec:
    def __init__(self, atoms, symbols, record=(), max_states=4000):
        self.atoms = atoms              # source text -> bool
        self.symbols = symbols          # source text -> symbol name
        self.record = set(record)
        self.max_states = max_states

    # ---- expressions
    def _const_names(self, e, st):
        """e with the locals that hold an integer constant on this path written as that constant (an index picked into a local: `x[i]` with i = -1)"""
        import copy
        consts = {k: int(v.const) for k, v in st.env.items() if isinstance(v, Lin) and not v.coef and float(v.const).is_integer()}
        if not consts or not any(isinstance(x, ast.Name) and x.id in consts for x in ast.walk(e)):
            return e

        class T(ast.NodeTransformer):
            def visit_Name(self, n):
                if n.id in consts and isinstance(n.ctx, ast.Load):
                    return ast.copy_location(ast.Constant(value=consts[n.id]), n)
                return n
        return ast.fix_missing_locations(T().visit(copy.deepcopy(e)))

    def atom_fn(self, st):
        def f(e):
            t = src(e)
            if t in self.atoms:
                return self.atoms[t]
            t2 = src(self._const_names(e, st))
            if t2 in self.atoms:
                return self.atoms[t2]
            if isinstance(e, ast.Name) and e.id in st.env and isinstance(st.env[e.id], bool):
                return st.env[e.id]
            return UNK
        return f

    def lin(self, e, st):
        def symname(n):
            return self.symbols.get(src(n))
        env = {k: v for k, v in st.env.items() if isinstance(v, Lin)}
        e = self._const_names(e, st)

        def rec(n):
            if isinstance(n, ast.IfExp):
                v = eval3(n.test, {}, self.atom_fn(st))
                if v is UNK:
                    return None
                return rec(n.body if v else n.orelse)
            if isinstance(n, ast.Subscript) and isinstance(n.value, ast.Name) and isinstance(st.env.get(n.value.id), tuple) and isinstance(n.slice, ast.Constant):
                t = st.env[n.value.id]
                i = n.slice.value
                return t[i] if isinstance(i, int) and -len(t) <= i < len(t) and isinstance(t[i], Lin) else None
            if isinstance(n, ast.BinOp) and isinstance(n.op, (ast.Add, ast.Sub)):
                l, r = rec(n.left), rec(n.right)
                if l is None or r is None:
                    return None
                return l + r if isinstance(n.op, ast.Add) else l - r
            if isinstance(n, ast.BinOp) and isinstance(n.op, ast.Mult):
                l, r = rec(n.left), rec(n.right)
                if l is not None and r is not None:
                    if not l.coef:
                        return r.scale(l.const)
                    if not r.coef:
                        return l.scale(r.const)
                return None
            if isinstance(n, ast.UnaryOp) and isinstance(n.op, ast.USub):
                v_ = rec(n.operand)
                return v_.scale(-1) if v_ is not None else None
            if isinstance(n, ast.Name) and n.id in st.env and not isinstance(st.env[n.id], Lin):
                return None
            return linform(n, env, symname)
        return rec(e)

    def value(self, e, st):
        if isinstance(e, ast.Tuple):
            return tuple(self.value(x, st) for x in e.elts)
        if isinstance(e, ast.Constant) and isinstance(e.value, bool):
            return e.value
        if isinstance(e, ast.Constant) and e.value is None:
            return None
        if isinstance(e, ast.IfExp):
            c = eval3(e.test, {}, self.atom_fn(st))
            if c is UNK:
                return ('opaque', src(e))
            return self.value(e.body if c else e.orelse, st)
        a = self.atom_fn(st)(e)
        if a is not UNK and isinstance(a, bool):
            return a
        v = eval3(e, {}, self.atom_fn(st)) if isinstance(e, (ast.BoolOp, ast.Compare, ast.UnaryOp)) and not isinstance(getattr(e, 'op', None), ast.USub) else UNK
        if v is not UNK and isinstance(v, bool):
            return v
        l = self.lin(e, st)
        if l is not None:
            return l
        return ('opaque', src(e))

    # ---- statements
    def run(self, stmts):
        out = []
        self._block(list(stmts), State(), out)
        return out

    def _block(self, stmts, st, out):
        """execute stmts on st; states that fall off the end are appended to `out` via continuation list"""
        states = [st]
        for s in stmts:
            nxt = []
            for cur in states:
                if cur.returned is not None:
                    nxt.append(cur)
                    continue
                nxt.extend(self._stmt(s, cur))
                if len(nxt) > self.max_states:
                    raise AnalysisError('symbolic execution: state budget exceeded')
            states = nxt
        out.extend(states)
        return states

    def _simplify(self, s, st):
        """conditional expressions whose test is decided by the atoms are replaced by the branch taken (wherever they occur in the statement)"""
        if isinstance(s, (ast.If, ast.For, ast.While, ast.With, ast.Try)) or not any(isinstance(n, ast.IfExp) for n in ast.walk(s)):
            return s
        import copy
        af = self.atom_fn(st)

        class T(ast.NodeTransformer):
            def visit_IfExp(self, n):
                self.generic_visit(n)
                v = eval3(n.test, {}, af)
                if v is UNK:
                    return n
                return n.body if v else n.orelse
        out = T().visit(copy.deepcopy(s))
        for n in ast.walk(out):
            if isinstance(n, ast.UnaryOp) and isinstance(n.op, ast.USub) and isinstance(n.operand, ast.Constant):
                pass
        return ast.fix_missing_locations(out)

    def _stmt(self, s, st):
        s = self._simplify(s, st)
        if isinstance(s, ast.Assign) and len(s.targets) == 1:
            t = s.targets[0]
            self._calls(s.value, st)
            if isinstance(t, ast.Name):
                st.env[t.id] = self.value(s.value, st)
                if t.id not in {x.id for x in ast.walk(s.value) if isinstance(x, ast.Name)}:
                    st.exprs[t.id] = self._resolve(s.value, st)
                else:
                    st.exprs.pop(t.id, None)
            elif isinstance(t, ast.Attribute) and isinstance(t.value, ast.Name) and t.value.id == 'self':
                st.fields[t.attr] = self.value(s.value, st)
            elif isinstance(t, ast.Tuple):
                for k, n in enumerate(t.elts):
                    if isinstance(n, ast.Name):
                        # element k of the unpacked value (`op, length = R1.cigartuples[0]`)
                        elt = ast.Subscript(value=s.value, slice=ast.Constant(value=k), ctx=ast.Load())
                        v = self.value(elt, st) if not isinstance(s.value, (ast.Call, ast.Tuple)) else ('opaque', src(s.value))
                        if isinstance(s.value, ast.Tuple) and len(s.value.elts) == len(t.elts):
                            v = self.value(s.value.elts[k], st)
                            elt = s.value.elts[k]
                        st.env[n.id] = v
                        if not isinstance(s.value, ast.Call):
                            st.exprs[n.id] = self._resolve(elt, st)
            return [st]
        if isinstance(s, ast.AugAssign) and isinstance(s.target, ast.Name) and isinstance(s.op, (ast.Add, ast.Sub)):
            cur = st.env.get(s.target.id)
            d = self.lin(s.value, st)
            if isinstance(cur, Lin) and d is not None:
                st.env[s.target.id] = cur + d if isinstance(s.op, ast.Add) else cur - d
            else:
                st.env[s.target.id] = ('opaque', src(s))
            return [st]
        if isinstance(s, ast.Expr):
            self._calls(s.value, st)
            return [st]
        if isinstance(s, ast.Return):
            if s.value is not None:
                self._calls(s.value, st)
            st.returned = ('return', src(s.value) if s.value is not None else 'None', self.value(s.value, st) if s.value is not None else None)
            return [st]
        if isinstance(s, ast.Raise):
            st.returned = ('raise', src(s), None)
            return [st]
        if isinstance(s, ast.If):
            v = eval3(s.test, {}, self.atom_fn(st))
            if v is UNK and st.exprs:
                v = eval3(self._resolve(s.test, st), {}, self.atom_fn(st))
            if v is UNK and st.exprs:
                v = self._nullness_test(s.test, st)
            res = []
            if v is UNK:
                for pol, body in ((True, s.body), (False, s.orelse)):
                    c = st.clone()
                    c.guards.append((src(s.test), pol))
                    sub = []
                    self._block(body, c, sub)
                    res.extend(sub)
            else:
                sub = []
                self._block(s.body if v else s.orelse, st, sub)
                res.extend(sub)
            return res
        if isinstance(s, (ast.Pass, ast.Import, ast.ImportFrom)):
            return [st]
        if isinstance(s, ast.Try):
            sub = []
            self._block(s.body, st, sub)
            return sub
        if isinstance(s, (ast.For, ast.While, ast.With)):
            # bodies of loops are not interpreted: names they assign become opaque
            for n in walk_no_nested(s):
                if isinstance(n, ast.Name) and isinstance(n.ctx, ast.Store):
                    st.env[n.id] = ('opaque', 'loop')
            return [st]
        return [st]

    def _resolve(self, e, st, depth=3):
        """e with the locals assigned on this path replaced by the expressions they hold"""
        import copy
        names = {x.id for x in ast.walk(e) if isinstance(x, ast.Name)}
        if depth <= 0 or not (names & set(st.exprs)):
            return e
        base = self._base_names()
        exprs = {k: v for k, v in st.exprs.items() if k not in base}
        if not (names & set(exprs)):
            return e

        class T(ast.NodeTransformer):
            def visit_Name(self, n):
                if n.id in exprs and isinstance(n.ctx, ast.Load):
                    return copy.deepcopy(exprs[n.id])
                return n
        return T().visit(copy.deepcopy(e))

    def _nullness_test(self, test, st):
        """`X is None` / `X is not None` on a local whose value on this path is a literal / a display / a slice or arithmetic result"""
        neg = False
        t = test
        if isinstance(t, ast.UnaryOp) and isinstance(t.op, ast.Not):
            neg, t = True, t.operand
        if not (isinstance(t, ast.Compare) and len(t.ops) == 1 and isinstance(t.ops[0], (ast.Is, ast.IsNot)) and isinstance(t.left, ast.Name)
                and isinstance(t.comparators[0], ast.Constant) and t.comparators[0].value is None):
            return UNK
        e = t.left
        for _ in range(6):
            if isinstance(e, ast.Name) and e.id in st.exprs:
                e = st.exprs[e.id]
            else:
                break
        if isinstance(e, ast.Constant):
            isnone = e.value is None
        elif isinstance(e, (ast.Tuple, ast.List, ast.Dict, ast.Set, ast.JoinedStr, ast.BinOp)) or (isinstance(e, ast.Subscript) and isinstance(e.slice, ast.Slice)):
            isnone = False
        else:
            return UNK
        v = isnone if isinstance(t.ops[0], ast.Is) else not isnone
        return (not v) if neg else v

    def _base_names(self):
        """names the atom / symbol tables are written in (`R1` of `R1.is_reverse`): they are never replaced by what they were assigned from"""
        b = getattr(self, '_base', None)
        if b is None:
            b = set()
            for t in list(self.atoms) + list(self.symbols):
                try:
                    b |= {x.id for x in ast.walk(ast.parse(t, mode='eval')) if isinstance(x, ast.Name)}
                except SyntaxError:
                    pass
            self._base = b
        return b

    def _calls(self, e, st):
        for c in walk_no_nested(e):
            if isinstance(c, ast.Call):
                d = dotted(c.func) or ''
                if d.split('.')[-1] in self.record:
                    args = {}
                    for i, a in enumerate(c.args):
                        args[i] = self.value(a, st)
                    for k in c.keywords:
                        if k.arg:
                            args[k.arg] = self.value(k.value, st)
                            args['src:' + k.arg] = src(k.value)
                    st.events.append((d.split('.')[-1], args, list(st.guards), c.lineno))
