"""N6 - inlining of private helpers that do not exist in the reference snapshot (DESIGN section 9).

"Extract a few statements into a small private helper" is the most common structural maintenance edit; it moves statements a rule
anchors on out of the analysed function.  Every rule is intra-procedural over the functions named in its slots, so instead of teaching
each rule about each possible helper, the parsed module is rewritten before the rules see it: a call of a function/method that is *new*
with respect to sa/reference/functions.json is replaced by the helper's body when that is possible without changing the meaning:

  * expression helpers (`def h(a, b): return <expr>`) are substituted anywhere, also inside comprehensions and loop conditions;
  * statement helpers are inlined at statement level (`x = h(..)`, `x += h(..)`, `h(..)`, `return h(..)`, or a call nested in the expression
    of a simple statement / if-test, which is first hoisted into a temporary); `return` statements of the helper become assignments of the
    result (if/else structure is kept, code following a returning `if` moves into its else-branch);
  * generator helpers consumed by `for T in h(..): BODY` or `yield from h(..)` are inlined when every `yield` is a statement of the helper:
    `yield e` becomes `T = e; BODY` (resp. stays a `yield e`); BODY must not contain break/continue in the first form;
  * helpers with *args/**kwargs, recursion, `return` inside loops (for statement helpers), nonlocal/global are left alone.

Helper locals keep their names (a helper extracted from the function uses the function's own names); parameters are bound by
`param = argument` assignments unless the argument is the like-named variable.  Nothing is derived from the snapshot except which
functions are new.
"""
import ast
import copy
import json
import os

from . import alpha

REF_FUNCS = os.path.join(os.path.dirname(os.path.abspath(__file__)), 'reference', 'functions.json')
_REF = None


def ref_functions():
    global _REF
    if _REF is None:
        try:
            with open(REF_FUNCS) as h:
                _REF = {k: set(v) for k, v in json.load(h).items()}
        except Exception:
            _REF = {}
    return _REF


class NotInlinable(Exception):
    pass


def _has(node_or_list, types, stop=(ast.FunctionDef, ast.AsyncFunctionDef, ast.ClassDef, ast.Lambda)):
    st = list(node_or_list) if isinstance(node_or_list, list) else [node_or_list]
    while st:
        n = st.pop()
        if isinstance(n, types):
            return True
        if isinstance(n, stop):
            continue
        st.extend(ast.iter_child_nodes(n))
    return False


def _is_static(f):
    return any(isinstance(d, ast.Name) and d.id in ('staticmethod',) for d in f.decorator_list)


def _is_classmethod(f):
    return any(isinstance(d, ast.Name) and d.id == 'classmethod' for d in f.decorator_list)


class _Subst(ast.NodeTransformer):
    def __init__(self, m):
        self.m = m

    def visit_Name(self, node):
        if node.id in self.m and isinstance(node.ctx, ast.Load):
            return copy.deepcopy(self.m[node.id])
        return node


class Helper:
    def __init__(self, qual, fdef, cls):
        self.qual, self.f, self.cls = qual, fdef, cls
        a = fdef.args
        if a.vararg or a.kwarg or a.posonlyargs:
            raise NotInlinable('varargs')
        if _has(fdef.body, (ast.Global, ast.Nonlocal)):
            raise NotInlinable('global')
        if any(not (isinstance(d, ast.Name) and d.id in ('staticmethod', 'classmethod')) for d in fdef.decorator_list):
            raise NotInlinable('decorated')
        for c_ in ast.walk(fdef):
            if isinstance(c_, ast.Call) and ((isinstance(c_.func, ast.Name) and c_.func.id == fdef.name and cls is None) or
                                             (isinstance(c_.func, ast.Attribute) and c_.func.attr == fdef.name and isinstance(c_.func.value, ast.Name) and c_.func.value.id in ('self', 'cls', cls or ''))):
                raise NotInlinable('recursive')         # a bounded unrolling is not the function
        self.params = [x.arg for x in a.args] + [x.arg for x in a.kwonlyargs]
        self.defaults = {}
        for p, d in zip([x.arg for x in a.args][len(a.args) - len(a.defaults):], a.defaults):
            self.defaults[p] = d
        for p, d in zip([x.arg for x in a.kwonlyargs], a.kw_defaults):
            if d is not None:
                self.defaults[p] = d
        self.implicit_first = cls is not None and not _is_static(fdef)
        self.is_gen = _has(fdef.body, (ast.Yield, ast.YieldFrom))
        body = fdef.body
        self.expr = body[0].value if len(body) == 1 and isinstance(body[0], ast.Return) and body[0].value is not None and not self.is_gen else None
        self.expr_simple = self.expr is not None
        # `if c: return a` ... `return b`  is the conditional expression  a if c else b
        if self.expr is None and not self.is_gen:
            def as_expr(stmts):
                if len(stmts) == 1 and isinstance(stmts[0], ast.Return) and stmts[0].value is not None:
                    return stmts[0].value
                if stmts and isinstance(stmts[0], ast.If):
                    b_ = as_expr(stmts[0].body)
                    o_ = as_expr(stmts[0].orelse + stmts[1:]) if (stmts[0].orelse or stmts[1:]) else None
                    if b_ is not None and o_ is not None and (not stmts[0].orelse or not stmts[1:]):
                        return ast.copy_location(ast.IfExp(test=stmts[0].test, body=b_, orelse=o_), stmts[0])
                return None
            e_ = as_expr(list(body))
            if e_ is not None:
                self.expr = e_
                self.expr_simple = True
        # straight-line helpers `t = e1; u = e2(t); return e(t, u)` are expressions too (each temporary assigned once, not a parameter)
        if self.expr is None and not self.is_gen and len(body) >= 2 and isinstance(body[-1], ast.Return) and body[-1].value is not None \
                and all(isinstance(x, ast.Assign) and len(x.targets) == 1 and isinstance(x.targets[0], ast.Name) for x in body[:-1]):
            temps = [x.targets[0].id for x in body[:-1]]
            if len(set(temps)) == len(temps) and not (set(temps) & set(self.params)):
                m = {}
                for x in body[:-1]:
                    m[x.targets[0].id] = _Subst(m).visit(copy.deepcopy(x.value))
                self.expr = _Subst(m).visit(copy.deepcopy(body[-1].value))
        # a helper that accumulates and returns one value (loop + append, dict + update chain, single-use temporaries) is an expression
        # helper once its own body is brought to its simplest form; tried only when the body as written is not an expression already, so
        # that the temporaries of straight-line helpers survive statement-level inlining
        if self.expr is None and not self.is_gen and len(fdef.body) > 1 and not getattr(self, '_simplified', False):
            try:
                from .normalize import merge_dict_updates, loops_to_comprehensions
                from . import propagate
                simp = copy.deepcopy(fdef)
                wrapper = ast.Module(body=[simp], type_ignores=[])
                merge_dict_updates(wrapper)
                loops_to_comprehensions(wrapper)
                propagate.propagate_function(simp, set())
                loops_to_comprehensions(wrapper)
                propagate.propagate_function(simp, set())
                if len(simp.body) == 1 and isinstance(simp.body[0], ast.Return) and simp.body[0].value is not None:
                    ast.fix_missing_locations(simp)
                    self.f = simp
                    self.expr = simp.body[0].value
                    self.expr_simple = True
            except Exception:
                pass

        # a generator that only maps one iterable (`for T in I: [t = e]*; yield E`) is the generator expression (E for T in I): it can stand
        # wherever the call is an argument (a call iterated by a `for` statement / `yield from` is expanded at statement level instead)
        if self.is_gen and self.expr is None:
            stmts = [x for x in body if not (isinstance(x, ast.Expr) and isinstance(x.value, ast.Constant) and isinstance(x.value.value, str))]
            if len(stmts) == 1 and isinstance(stmts[0], ast.For) and not stmts[0].orelse and stmts[0].body:
                lp = stmts[0]
                *pre_, last_ = lp.body
                tnames = {n.id for n in ast.walk(lp.target) if isinstance(n, ast.Name)}
                if isinstance(last_, ast.Expr) and isinstance(last_.value, ast.Yield) and last_.value.value is not None \
                        and all(isinstance(x, ast.Assign) and len(x.targets) == 1 and isinstance(x.targets[0], ast.Name) for x in pre_) \
                        and not _has(pre_, (ast.Yield, ast.YieldFrom)) and not _has([ast.Expr(value=last_.value.value)], (ast.Yield, ast.YieldFrom)):
                    temps = [x.targets[0].id for x in pre_]
                    uses = {t: sum(1 for x in lp.body for n in ast.walk(x) if isinstance(n, ast.Name) and n.id == t and isinstance(n.ctx, ast.Load)) for t in temps}
                    callfree = {x.targets[0].id: not any(isinstance(n, ast.Call) for n in ast.walk(x.value)) for x in pre_}
                    if len(set(temps)) == len(temps) and not (set(temps) & (set(self.params) | tnames)) and all(u <= 1 or callfree[t] for t, u in uses.items()):
                        m = {}
                        for x in pre_:
                            m[x.targets[0].id] = _Subst(m).visit(copy.deepcopy(x.value))
                        elt = _Subst(m).visit(copy.deepcopy(last_.value.value))
                        ge = ast.GeneratorExp(elt=elt, generators=[ast.comprehension(target=copy.deepcopy(lp.target), iter=copy.deepcopy(lp.iter), ifs=[], is_async=0)])
                        self.expr = ast.fix_missing_locations(ast.copy_location(ge, lp))
                        self.expr_simple = True

    def bind(self, call, receiver):
        """param -> argument expression"""
        if any(isinstance(x, ast.Starred) for x in call.args) or any(k.arg is None for k in call.keywords):
            raise NotInlinable('star args')
        params = list(self.params)
        m = {}
        if self.implicit_first:
            if receiver is None:
                raise NotInlinable('unbound method call')
            m[params[0]] = receiver
            params = params[1:]
        if len(call.args) > len(params):
            raise NotInlinable('too many args')
        for p, x in zip(params, call.args):
            m[p] = x
        for k in call.keywords:
            if k.arg not in self.params or k.arg in m:
                raise NotInlinable('bad keyword')
            m[k.arg] = k.value
        for p in self.params:
            if p not in m:
                if p in self.defaults:
                    m[p] = self.defaults[p]
                else:
                    raise NotInlinable(f'missing argument {p}')
        return m


def _assign(target, value, at):
    if target is None:
        n = ast.Expr(value=value if value is not None else ast.Constant(value=None))
    elif isinstance(target, tuple) and target[0] == 'aug':
        n = ast.AugAssign(target=copy.deepcopy(target[1]), op=target[2], value=value if value is not None else ast.Constant(value=None))
    elif isinstance(target, tuple) and target[0] == 'return':
        n = ast.Return(value=value)
    else:
        n = ast.Assign(targets=[copy.deepcopy(t) for t in target], value=value if value is not None else ast.Constant(value=None))
    return ast.copy_location(n, at)


def _conv(stmts, target):
    """helper body with `return e` turned into `target = e`; returns (stmts, terminates_on_all_paths)"""
    out = []
    for i, s in enumerate(stmts):
        if isinstance(s, ast.Return):
            out.append(_assign(target, s.value, s))
            return out, True
        if isinstance(s, ast.Raise):
            out.append(s)
            return out, True
        if not _has(s, ast.Return):
            out.append(s)
            continue
        rest = stmts[i + 1:]
        if isinstance(s, ast.If):
            b, rb = _conv(list(s.body) + copy.deepcopy(rest), target)
            o, ro = _conv(list(s.orelse) + copy.deepcopy(rest), target)
            out.append(ast.copy_location(ast.If(test=s.test, body=b or [ast.copy_location(ast.Pass(), s)], orelse=o), s))
            return out, rb and ro
        if isinstance(s, ast.Try) and not s.orelse and not s.finalbody:
            # the statements after the try run when the body completed or a handler fell through: they are appended to every handler and
            # (when the body does not return itself) put into the else-branch; a body that returns on some paths only is not supported
            body_has = _has(list(s.body), ast.Return)
            b, rb = _conv(list(s.body), target)
            if body_has and not rb:
                raise NotInlinable('try body returns on some paths only')
            hs = []
            allr = True
            for h in s.handlers:
                hb, rh = _conv(list(h.body) + copy.deepcopy(rest), target)
                hs.append(ast.copy_location(ast.ExceptHandler(type=h.type, name=h.name, body=hb or [ast.copy_location(ast.Pass(), h)]), h))
                allr = allr and rh
            orelse = []
            if not body_has:
                orelse, ro = _conv(copy.deepcopy(rest), target)
                allr = allr and ro
            else:
                allr = allr and rb
            out.append(ast.copy_location(ast.Try(body=b, handlers=hs, orelse=orelse, finalbody=[]), s))
            return out, allr
        if isinstance(s, (ast.For, ast.While)) and not s.orelse:
            # search loop with early return:  `for ..: if c: return e` + rest  ==>  `for ..: if c: T = e; break` + `else: rest`
            # (for/else runs the else-branch exactly when the loop was not left by break) - only when the loop has no break of its own
            # and the returns are not inside a nested loop
            if _has(s.body, ast.Break, stop=(ast.FunctionDef, ast.ClassDef, ast.Lambda, ast.For, ast.While)):
                raise NotInlinable('return inside a loop that also breaks')
            for inner in s.body:
                for x in ast.walk(inner):
                    if isinstance(x, (ast.For, ast.While)) and _has(x, ast.Return):
                        raise NotInlinable('return inside a nested loop')
            new_body = _loop_returns_to_breaks(list(s.body), target)
            r, rr = _conv(copy.deepcopy(rest), target)
            if not rr and not (target is None):
                r = r + [_assign(target, None, s)] if not (isinstance(target, tuple) and target[0] == 'return') else r
            loop = copy.copy(s)
            loop.body = new_body
            loop.orelse = r or []
            out.append(loop)
            return out, False if not rr else True
        raise NotInlinable(f'return inside {type(s).__name__}')
    return out, False


def _loop_returns_to_breaks(stmts, target):
    out = []
    for s in stmts:
        if isinstance(s, ast.Return):
            if isinstance(target, tuple) and target[0] == 'return':
                out.append(s)
            else:
                out.append(_assign(target, s.value, s))
                out.append(ast.copy_location(ast.Break(), s))
            return out
        if isinstance(s, (ast.FunctionDef, ast.ClassDef, ast.For, ast.While)):
            out.append(s)
            continue
        if _has(s, ast.Return):
            s = copy.copy(s)
            for fld in ('body', 'orelse', 'finalbody'):
                sub = getattr(s, fld, None)
                if isinstance(sub, list) and sub and isinstance(sub[0], ast.stmt):
                    setattr(s, fld, _loop_returns_to_breaks(list(sub), target))
            if isinstance(s, ast.Try):
                s.handlers = [ast.copy_location(ast.ExceptHandler(type=h.type, name=h.name, body=_loop_returns_to_breaks(list(h.body), target)), h) for h in s.handlers]
        out.append(s)
    return out


def _find_class(loader, rp, name, depth=0, kind=ast.ClassDef):
    """(relpath, def) of class (or function, kind=ast.FunctionDef) `name` as seen from module rp, following `from .x import name` /
    `from .x import *` re-exports"""
    if depth > 3:
        return None
    tree = loader(rp)
    if tree is None:
        return None
    for ch in tree.body:
        if isinstance(ch, kind) and ch.name == name:
            return rp, ch
    for st in tree.body:
        if isinstance(st, ast.ImportFrom) and any(a.name in ('*', name) for a in st.names):
            if st.level:
                base = os.path.dirname(rp)
                for _ in range(st.level - 1):
                    base = os.path.dirname(base)
                mp = os.path.join(base, *(st.module.split('.') if st.module else []))
            elif st.module and st.module.startswith('singlecellmultiomics'):
                mp = st.module.replace('.', '/')
            else:
                continue
            for rp2 in (mp + '.py', mp + '/__init__.py'):
                r = _find_class(loader, rp2, name, depth + 1, kind)
                if r is not None:
                    return r
    return None


class Inliner:
    def __init__(self, tree, relpath, loader=None):
        self.tree = tree
        self.new = {}       # key -> Helper ; key = ('f', name) for module functions, ('m', name) for methods (unique over the module)
        self.done = []      # (caller qualname, helper qualname, how)
        self.skipped = []
        self.tmp = 0
        self.caller_ref_names = set()
        self.typed_locals = {}
        self.relpath = relpath
        ref = ref_functions().get(relpath)
        if ref is None:
            ref = None
        meth_count = {}
        cands = []

        def scan(node, prefix, cls):
            for ch in ast.iter_child_nodes(node):
                if isinstance(ch, (ast.FunctionDef,)):
                    q = prefix + ch.name
                    if ref is not None and q not in ref:
                        cands.append((q, ch, cls))
                    # closures defined inside a function (`def _reject(reason): ...`) are helpers of that function
                    nested(ch, q + '.')
                elif isinstance(ch, ast.ClassDef):
                    scan(ch, prefix + ch.name + '.', ch.name)

        def nested(fn, prefix):
            for ch in ast.walk(fn):
                if isinstance(ch, ast.FunctionDef) and ch is not fn:
                    q = prefix + ch.name
                    if ref is not None and q not in ref and not any(c_[1] is ch for c_ in cands):
                        cands.append((q, ch, None))
        scan(tree, '', None)
        for q, f, cls in cands:
            try:
                h = Helper(q, f, cls)
            except NotInlinable as e:
                self.skipped.append((q, str(e)))
                continue
            key = ('m' if cls else 'f', f.name)
            if key in self.new:
                self.new[key] = None      # ambiguous
            else:
                self.new[key] = h
        self.new = {k: v for k, v in self.new.items() if v is not None}
        # new module-level helpers of other package modules that this module imports by name (`from pkg.mod import _helper`)
        if loader is not None:
            for st in ast.walk(tree):
                if isinstance(st, ast.ImportFrom) and ((st.level == 0 and st.module and st.module.startswith('singlecellmultiomics')) or st.level > 0):
                    if st.level:
                        base = os.path.dirname(relpath)
                        for _ in range(st.level - 1):
                            base = os.path.dirname(base)
                        modpath = os.path.join(base, *(st.module.split('.') if st.module else []))
                    else:
                        modpath = st.module.replace('.', '/')
                    cand = [modpath + '.py', modpath + '/__init__.py']
                    for al in st.names:
                        # an imported base class: its NEW methods are helpers of the classes of this module that derive from it
                        alias_ = al.asname or al.name
                        if al.name != '*' and any(isinstance(c_, ast.ClassDef) and any(isinstance(b_, ast.Name) and b_.id == alias_ for b_ in c_.bases) for c_ in ast.walk(tree)):
                            for rp0 in cand:
                                found = _find_class(loader, rp0, al.name)
                                if found is None:
                                    continue
                                rp, ch = found
                                rf = ref_functions().get(rp)
                                if rf is None:
                                    continue
                                if True:
                                    if True:
                                        for mth in ch.body:
                                            if isinstance(mth, ast.FunctionDef) and f'{ch.name}.{mth.name}' not in rf and ('m', mth.name) not in self.new \
                                                    and not any(isinstance(x, ast.FunctionDef) and x.name == mth.name for c_ in ast.walk(tree) if isinstance(c_, ast.ClassDef) for x in c_.body):
                                                try:
                                                    self.new[('m', mth.name)] = Helper(f'{rp}:{ch.name}.{mth.name}', mth, ch.name)
                                                except NotInlinable as e:
                                                    self.skipped.append((mth.name, str(e)))
                        if al.name == '*' or al.name[:1].isupper() or ('f', al.asname or al.name) in self.new:
                            continue
                        cand2 = []
                        for rp_ in cand:
                            fd_ = _find_class(loader, rp_, al.name, kind=ast.FunctionDef)
                            if fd_ is not None and fd_[0] not in cand2:
                                cand2.append(fd_[0])
                        for rp in cand2 or cand:
                            rf = ref_functions().get(rp)
                            if rf is None and ref_functions() and loader(rp) is not None:
                                rf = {}         # a module that did not exist in the reference: everything in it is new
                            if rf is None or al.name in rf:
                                continue
                            # a function that merely moved here from another module (it exists in the reference under the same name) is
                            # not a new helper: it is grafted back (index._graft_moved_functions), never inlined
                            if any(al.name in fns for fns in ref_functions().values()):
                                continue
                            other = loader(rp)
                            if other is None:
                                continue
                            for ch in other.body:
                                if isinstance(ch, ast.FunctionDef) and ch.name == al.name:
                                    try:
                                        hobj = Helper(f'{rp}:{al.name}', ch, None)
                                        # constants of the helper's own module that its body refers to travel with it
                                        hobj.module_consts = {st2.targets[0].id: st2.value for st2 in other.body if isinstance(st2, ast.Assign) and len(st2.targets) == 1
                                                              and isinstance(st2.targets[0], ast.Name) and isinstance(st2.value, ast.Constant)}
                                        # module-level definitions of the helper's module that its body calls must stay resolvable after inlining
                                        top = {d.name for d in other.body if isinstance(d, (ast.FunctionDef, ast.ClassDef))} | \
                                              {t.id for d in other.body if isinstance(d, ast.Assign) and not isinstance(d.value, ast.Constant) for t in d.targets if isinstance(t, ast.Name)}
                                        hobj.module_needs = (rp, sorted({n.id for n in ast.walk(ch) if isinstance(n, ast.Name) and n.id in top and n.id != al.name}))
                                        self.new[('f', al.asname or al.name)] = hobj
                                        # the new functions of that module which the helper itself calls are helpers too (its inlined body refers
                                        # to them by their bare names)
                                        here = {d.name for d in tree.body if isinstance(d, (ast.FunctionDef, ast.ClassDef))}
                                        for ch2 in other.body:
                                            if isinstance(ch2, ast.FunctionDef) and ch2.name in hobj.module_needs[1] and ch2.name not in rf and ch2.name not in here \
                                                    and ('f', ch2.name) not in self.new and not any(ch2.name in fns for fns in ref_functions().values()):
                                                try:
                                                    h2 = Helper(f'{rp}:{ch2.name}', ch2, None)
                                                    h2.module_consts = hobj.module_consts
                                                    h2.module_needs = (rp, sorted({n.id for n in ast.walk(ch2) if isinstance(n, ast.Name) and n.id in top and n.id != ch2.name}))
                                                    self.new[('f', ch2.name)] = h2
                                                except NotInlinable as e:
                                                    self.skipped.append((ch2.name, str(e)))
                                    except NotInlinable as e:
                                        self.skipped.append((al.name, str(e)))
                # `from package import module` / `import package.module as module`: new functions of that module called as module.f(...)
                if isinstance(st, (ast.ImportFrom, ast.Import)):
                    for al in st.names:
                        if isinstance(st, ast.ImportFrom):
                            if st.level:
                                base = os.path.dirname(relpath)
                                for _ in range(st.level - 1):
                                    base = os.path.dirname(base)
                                mp = os.path.join(base, *(st.module.split('.') if st.module else []), al.name)
                            elif st.module and st.module.startswith('singlecellmultiomics'):
                                mp = st.module.replace('.', '/') + '/' + al.name
                            else:
                                continue
                            alias = al.asname or al.name
                        else:
                            if not al.name.startswith('singlecellmultiomics') or not al.asname:
                                continue
                            mp = al.name.replace('.', '/')
                            alias = al.asname
                        rp = mp + '.py'
                        rf = ref_functions().get(rp)
                        if rf is None and ref_functions() and loader(rp) is not None:
                            rf = {}
                        if rf is None:
                            continue
                        other = loader(rp)
                        if other is None:
                            continue
                        for ch in other.body:
                            if isinstance(ch, ast.FunctionDef) and ch.name not in rf and not any(ch.name in fns for fns in ref_functions().values()):
                                try:
                                    hobj = Helper(f'{rp}:{ch.name}', ch, None)
                                    hobj.module_consts = {st2.targets[0].id: st2.value for st2 in other.body if isinstance(st2, ast.Assign) and len(st2.targets) == 1
                                                          and isinstance(st2.targets[0], ast.Name) and isinstance(st2.value, ast.Constant)}
                                    top = {d.name for d in other.body if isinstance(d, (ast.FunctionDef, ast.ClassDef))} | \
                                          {t.id for d in other.body if isinstance(d, ast.Assign) and not isinstance(d.value, ast.Constant) for t in d.targets if isinstance(t, ast.Name)}
                                    hobj.module_needs = (rp, sorted({n.id for n in ast.walk(ch) if isinstance(n, ast.Name) and n.id in top and n.id != ch.name}))
                                    self.new[('mf', alias, ch.name)] = hobj
                                except NotInlinable as e:
                                    self.skipped.append((ch.name, str(e)))

    # ---- call recognition
    def helper_of(self, call):
        f = call.func
        if isinstance(f, ast.Name) and ('f', f.id) in self.new:
            return self.new[('f', f.id)], None
        if isinstance(f, ast.Attribute) and isinstance(f.value, ast.Name) and ('mf', f.value.id, f.attr) in self.new:
            return self.new[('mf', f.value.id, f.attr)], None       # module_alias.new_function(...)
        if isinstance(f, ast.Attribute) and ('m', f.attr) in self.new:
            h = self.new[('m', f.attr)]
            recv = f.value
            if isinstance(recv, ast.Name) and recv.id == h.cls:        # Class.helper(...)
                return h, (None if not h.implicit_first else None)
            if h.implicit_first and _is_classmethod(h.f):
                return None, None
            if isinstance(recv, ast.Call) and isinstance(recv.func, ast.Name) and recv.func.id == 'super':
                # super().helper(..): the helper runs on the very object the calling method runs on
                recv = ast.copy_location(ast.Name(id='self', ctx=ast.Load()), recv)
            known_type = isinstance(recv, ast.Name) and getattr(self, 'typed_locals', {}).get(recv.id) == {h.cls}
            if not f.attr.startswith('_') and not (isinstance(recv, ast.Name) and recv.id == 'self') and not known_type:
                # a public method name (close, write, update ...) on another receiver is, as far as this analysis can tell, the method of another type
                return None, None
            return h, recv
        return None, None

    # ---- expression level
    def subst_expr_helpers(self, node, depth=0):
        """replace calls of expression helpers everywhere below node (in place)"""
        inl = self

        class T(ast.NodeTransformer):
            def _skip_iter(self, node, fld):
                # `for x in gen_helper(..)` / `yield from gen_helper(..)`: expanded at statement level
                it = getattr(node, fld)
                if isinstance(it, ast.Call):
                    h_, _ = inl.helper_of(it)
                    if h_ is not None and h_.is_gen:
                        for f_, v_ in ast.iter_fields(it):
                            if isinstance(v_, list):
                                setattr(it, f_, [self.visit(x) if isinstance(x, ast.AST) else x for x in v_])
                            elif isinstance(v_, ast.AST):
                                setattr(it, f_, self.visit(v_))
                        for f_, v_ in ast.iter_fields(node):
                            if f_ == fld:
                                continue
                            if isinstance(v_, list):
                                setattr(node, f_, [self.visit(x) if isinstance(x, ast.AST) else x for x in v_])
                            elif isinstance(v_, ast.AST):
                                setattr(node, f_, self.visit(v_))
                        return node
                return self.generic_visit(node)

            def visit_For(self, node):
                return self._skip_iter(node, 'iter')

            def visit_YieldFrom(self, node):
                return self._skip_iter(node, 'value')

            def visit_Call(self, c):
                self.generic_visit(c)
                h, recv = inl.helper_of(c)
                if h is not None and h.expr is not None and depth < 4:
                    try:
                        m = h.bind(c, recv)
                    except NotInlinable:
                        return c
                    e = _Subst(m).visit(copy.deepcopy(h.expr))
                    e = ast.copy_location(e, c) if not hasattr(e, 'lineno') else e
                    inl.done.append((None, h.qual, 'expression'))
                    inl.subst_expr_helpers(e, depth + 1)
                    return e
                return c
        return T().visit(node)

    # ---- statement level
    def body_for(self, h, call, recv, target):
        pre, hbody = self._bind_params(h, call, recv)
        body, allret = _conv(hbody, target)
        if not allret and target is not None and not (isinstance(target, tuple) and target[0] == 'return'):
            body.append(_assign(target, None, call))
        return pre + body

    def _bind_params(self, h, call, recv):
        """(parameter-binding assignments, copy of the helper body): a parameter the helper never re-binds and whose argument is a plain
        name / attribute / constant / simple subscript is substituted directly (the extracted statements then read exactly like before)"""
        m = h.bind(call, recv)
        stored = {n.id for n in ast.walk(h.f) if isinstance(n, ast.Name) and isinstance(n.ctx, (ast.Store, ast.Del))}

        def simple(e):
            return isinstance(e, (ast.Name, ast.Constant)) or (isinstance(e, ast.Attribute) and simple(e.value)) or \
                (isinstance(e, ast.Subscript) and simple(e.value) and simple(e.slice))
        pre, sub = [], {}
        for p in h.params:
            a = m[p]
            if isinstance(a, ast.Name) and a.id == p:
                continue
            if p not in stored and simple(a):
                sub[p] = a
            else:
                pre.append(ast.copy_location(ast.Assign(targets=[ast.Name(id=p, ctx=ast.Store())], value=copy.deepcopy(a)), call))
        body = copy.deepcopy(h.f.body)
        mc = {k: v for k, v in getattr(h, 'module_consts', {}).items() if k not in stored and k not in h.params}
        if mc:
            body = [_Subst(mc).visit(x) for x in body]
        if sub:
            body = [_Subst(sub).visit(x) for x in body]
        # helper locals that are not locals of the calling function in the reference get a fresh name per inlined instance (two inlined
        # copies must not share temporaries); locals that the caller already had (statements moved out verbatim) keep their name
        own = stored - set(h.params)
        # (a generator helper runs interleaved with the loop that consumes it: a local it shares by name with what the loop body binds would be overwritten between two yields)
        clash = getattr(self, 'consumer_stores', {}).get(h.f.name, set()) if h.is_gen else set()
        fresh = {n: f'{n}__i{self._instance()}' for n in sorted(own) if n not in self.caller_ref_names or n in clash}
        if fresh:
            class R(ast.NodeTransformer):
                def visit_Name(self, node):
                    if node.id in fresh:
                        node.id = fresh[node.id]
                    return node

                def visit_ExceptHandler(self, node):
                    if node.name in fresh:
                        node.name = fresh[node.name]
                    self.generic_visit(node)
                    return node
            body = [R().visit(x) for x in body]
        return pre, body

    def _instance(self):
        self.tmp += 1
        return self.tmp

    def gen_body(self, h, call, recv, on_yield, on_yield_from=None):
        """generator helper body with every `yield e` statement replaced by on_yield(e, yield_stmt)"""
        pre, body = self._bind_params(h, call, recv)
        # `return` in a generator ends the generator: inside the loop that is the last statement of the helper (and not inside a further
        # loop) that is `break`; as the very last statement it is nothing at all
        if body and isinstance(body[-1], ast.Return) and body[-1].value is None:
            body = body[:-1] or [ast.Pass()]

        def guards_to_else(stmts):
            # `if c: ..; return` followed by more statements (a guard clause of the generator) is `if c: .. else: <the rest>`
            for k, st_ in enumerate(stmts):
                if isinstance(st_, ast.If) and not st_.orelse and st_.body and isinstance(st_.body[-1], ast.Return) and st_.body[-1].value is None and k + 1 < len(stmts) \
                        and not _has(st_.body[:-1], ast.Return):
                    new_if = ast.copy_location(ast.If(test=st_.test, body=st_.body[:-1] or [ast.copy_location(ast.Pass(), st_)], orelse=guards_to_else(stmts[k + 1:])), st_)
                    return stmts[:k] + [new_if]
            return stmts
        body = guards_to_else(body)
        tail = body
        while tail and isinstance(tail[-1], ast.With):
            tail = tail[-1].body          # a loop that is the last thing inside the trailing `with` block(s) is still the last thing done
        if tail and isinstance(tail[-1], (ast.For, ast.While)) and not tail[-1].orelse:
            def to_break(stmts):
                for k, st_ in enumerate(stmts):
                    if isinstance(st_, ast.Return) and st_.value is None:
                        stmts[k] = ast.copy_location(ast.Break(), st_)
                    elif isinstance(st_, (ast.For, ast.While, ast.FunctionDef, ast.ClassDef)):
                        continue
                    else:
                        for fld_ in ('body', 'orelse', 'finalbody'):
                            b_ = getattr(st_, fld_, None)
                            if isinstance(b_, list):
                                to_break(b_)
                        if isinstance(st_, ast.Try):
                            for h_ in st_.handlers:
                                to_break(h_.body)
            to_break(tail[-1].body)

        def rec(stmts):
            out = []
            for s in stmts:
                if isinstance(s, ast.Expr) and isinstance(s.value, ast.Yield):
                    out.extend(on_yield(s.value.value, s))
                    continue
                if isinstance(s, ast.Expr) and isinstance(s.value, ast.YieldFrom):
                    if on_yield_from is None:
                        raise NotInlinable('nested yield from')
                    out.extend(on_yield_from(s.value.value, s))
                    continue
                if isinstance(s, ast.Return):
                    raise NotInlinable('return in generator')
                if isinstance(s, (ast.FunctionDef, ast.ClassDef)):
                    out.append(s)
                    continue
                for fld in ('body', 'orelse', 'finalbody'):
                    sub = getattr(s, fld, None)
                    if isinstance(sub, list) and sub and isinstance(sub[0], ast.stmt):
                        setattr(s, fld, rec(sub))
                if isinstance(s, ast.Try):
                    for hd in s.handlers:
                        hd.body = rec(hd.body)
                # a yield used as an expression (x = yield ..) is not supported
                own = [x for x in ast.iter_child_nodes(s) if not isinstance(x, ast.stmt) and not isinstance(x, ast.ExceptHandler)]
                if any(_has(x, (ast.Yield, ast.YieldFrom)) for x in own):
                    raise NotInlinable('yield expression')
                out.append(s)
            return out
        return pre + rec(body)

    def inline_stmt(self, s, depth=0):
        """list of statements replacing s (or [s])"""
        if depth > 3:
            return [s]
        try:
            # for T in h(..): BODY
            if isinstance(s, ast.For) and isinstance(s.iter, ast.Call):
                h, recv = self.helper_of(s.iter)
                loop_stop = (ast.FunctionDef, ast.ClassDef, ast.Lambda, ast.For, ast.While)
                if h is not None and h.is_gen and not s.orelse and not _has(s.body, ast.Break, stop=loop_stop):
                    has_cont = _has(s.body, ast.Continue, stop=loop_stop)

                    copies = [0]

                    def fresh_copy(stmts):
                        """a copy of the consumer body; from the second copy on, temporaries of helpers inlined into it earlier get new
                        instance numbers (two copies must not share temporaries)"""
                        import re
                        body_ = copy.deepcopy(stmts)
                        copies[0] += 1
                        if copies[0] > 1:
                            ren = {}
                            for st_ in body_:
                                for n_ in ast.walk(st_):
                                    if isinstance(n_, ast.Name) and re.search(r'__i\d+$', n_.id):
                                        if n_.id not in ren:
                                            ren[n_.id] = re.sub(r'__i\d+$', '', n_.id) + f'__i{self._instance()}'
                                        n_.id = ren[n_.id]
                        return body_

                    def on_yield(e, ys, s=s, has_cont=has_cont):
                        body = fresh_copy(s.body)
                        if has_cont:
                            # `continue` of the consumer means "go on after the yield": a one-iteration loop expresses exactly that
                            body = [ast.copy_location(ast.For(target=ast.Name(id='_inl_once', ctx=ast.Store()), iter=ast.Tuple(elts=[ast.Constant(value=None)], ctx=ast.Load()),
                                                              body=body, orelse=[]), s)]
                        return [ast.copy_location(ast.Assign(targets=[copy.deepcopy(s.target)], value=e), ys)] + body
                    def on_yield_from(e, ys, s=s, has_cont=has_cont):
                        # `yield from X` consumed by `for T in ..: BODY`  ==  `for T in X: BODY`
                        return [ast.copy_location(ast.For(target=copy.deepcopy(s.target), iter=e, body=fresh_copy(s.body), orelse=[]), ys)]
                    new = self.gen_body(h, s.iter, recv, on_yield, on_yield_from)
                    self.done.append((None, h.qual, 'generator loop'))
                    return self.block(new, depth + 1)
            if isinstance(s, ast.Expr) and isinstance(s.value, ast.YieldFrom) and isinstance(s.value.value, ast.Call):
                h, recv = self.helper_of(s.value.value)
                if h is not None and h.is_gen:
                    new = self.gen_body(h, s.value.value, recv, lambda e, ys: [ys], lambda e, ys: [ys])
                    self.done.append((None, h.qual, 'yield from'))
                    return self.block(new, depth + 1)
            call, target = None, None
            if isinstance(s, ast.Assign) and isinstance(s.value, ast.Call):
                call, target = s.value, s.targets
            elif isinstance(s, ast.AugAssign) and isinstance(s.value, ast.Call):
                call, target = s.value, ('aug', s.target, s.op)
            elif isinstance(s, ast.Expr) and isinstance(s.value, ast.Call):
                call, target = s.value, None
            elif isinstance(s, ast.Return) and isinstance(s.value, ast.Call):
                call, target = s.value, ('return',)
            if call is not None:
                h, recv = self.helper_of(call)
                if h is not None and not h.is_gen and not h.expr_simple:
                    new = self.body_for(h, call, recv, target)
                    self.done.append((None, h.qual, 'statement'))
                    return self.block(new, depth + 1)
            # `if A and H(x): BODY` (no else) with a statement helper H in a later operand is `if A: if H(x): BODY`: the helper call then is the
            # operand that is always evaluated and can be hoisted
            if isinstance(s, ast.If) and not s.orelse and isinstance(s.test, ast.BoolOp) and isinstance(s.test.op, ast.And):
                vals = s.test.values
                for i_ in range(1, len(vals)):
                    hs = [c for c in self._hoistable_calls(vals[i_]) if (lambda h_: h_ is not None and not h_.is_gen and not h_.expr_simple)(self.helper_of(c)[0])]
                    if hs:
                        outer_t = vals[0] if i_ == 1 else ast.copy_location(ast.BoolOp(op=ast.And(), values=vals[:i_]), s.test)
                        inner_t = vals[i_] if i_ == len(vals) - 1 else ast.copy_location(ast.BoolOp(op=ast.And(), values=vals[i_:]), s.test)
                        inner = ast.copy_location(ast.If(test=inner_t, body=s.body, orelse=[]), s)
                        s.test = outer_t
                        s.body = [inner]
                        s.body = self.block(s.body, depth + 1)
                        return [s]
            # calls nested in the expressions of a simple statement / an if test: hoist
            if isinstance(s, (ast.Assign, ast.AugAssign, ast.Expr, ast.Return, ast.If)):
                roots = [s.test] if isinstance(s, ast.If) else [x for x in ast.iter_child_nodes(s) if isinstance(x, ast.expr)]
                pre = []
                for r in roots:
                    for c in self._hoistable_calls(r):
                        h, recv = self.helper_of(c)
                        if h is None or h.is_gen or h.expr_simple:
                            continue
                        self.tmp += 1
                        tname = f'_inl{self.tmp}_{h.f.name.lstrip("_")}'
                        new = self.body_for(h, c, recv, [ast.Name(id=tname, ctx=ast.Store())])
                        pre.extend(new)
                        self._replace(s, c, ast.copy_location(ast.Name(id=tname, ctx=ast.Load()), c))
                        self.done.append((None, h.qual, 'hoisted'))
                if pre:
                    return self.block(pre, depth + 1) + [s]
        except NotInlinable as e:
            self.skipped.append((getattr(s, 'lineno', 0), str(e)))
        return [s]

    def _hoistable_calls(self, root):
        """helper calls below root that are not inside a comprehension / lambda / conditional sub-expression"""
        out = []
        st = [root]
        while st:
            n = st.pop()
            if isinstance(n, (ast.ListComp, ast.SetComp, ast.DictComp, ast.GeneratorExp, ast.Lambda, ast.IfExp)):
                continue
            if isinstance(n, ast.BoolOp):
                st.append(n.values[0])      # only the operand that is always evaluated
                continue
            if isinstance(n, ast.Call) and self.helper_of(n)[0] is not None:
                out.append(n)
                continue
            st.extend(ast.iter_child_nodes(n))
        return out

    def _replace(self, root, old, new):
        for n in ast.walk(root):
            for fld, val in ast.iter_fields(n):
                if val is old:
                    setattr(n, fld, new)
                    return
                if isinstance(val, list):
                    for i, x in enumerate(val):
                        if x is old:
                            val[i] = new
                            return

    def block(self, stmts, depth=0):
        out = []
        for s in stmts:
            if isinstance(s, (ast.FunctionDef, ast.AsyncFunctionDef, ast.ClassDef)):
                out.append(s)
                continue
            for fld in ('body', 'orelse', 'finalbody'):
                sub = getattr(s, fld, None)
                if isinstance(sub, list) and sub and isinstance(sub[0], ast.stmt):
                    setattr(s, fld, self.block(sub, depth))
            if isinstance(s, ast.Try):
                for hd in s.handlers:
                    hd.body = self.block(hd.body, depth)
            out.extend(self.inline_stmt(s, depth))
        return out

    def _expand_star_calls(self, stmts):
        out = []
        for s in stmts:
            for fld in ('body', 'orelse', 'finalbody'):
                sub = getattr(s, fld, None)
                if isinstance(sub, list) and sub and isinstance(sub[0], ast.stmt) and not isinstance(s, (ast.FunctionDef, ast.AsyncFunctionDef, ast.ClassDef)):
                    setattr(s, fld, self._expand_star_calls(sub))
            if isinstance(s, ast.Try):
                for h_ in s.handlers:
                    h_.body = self._expand_star_calls(h_.body)
            if isinstance(s, (ast.Assign, ast.Return, ast.Expr)) and s.value is not None:
                for c in [x for x in ast.walk(s.value) if isinstance(x, ast.Call)]:
                    if len(c.args) == 1 and isinstance(c.args[0], ast.Starred) and not c.keywords:
                        h, recv = self.helper_of(c)
                        if h is None:
                            continue
                        params = h.params[1:] if h.implicit_first else list(h.params)
                        if not params or any(p_ in h.defaults for p_ in params):
                            continue
                        names = [f'_star{k}__i{self._instance()}' for k in range(len(params))]
                        out.append(ast.copy_location(ast.Assign(targets=[ast.Tuple(elts=[ast.Name(id=n_, ctx=ast.Store()) for n_ in names], ctx=ast.Store())], value=c.args[0].value), s))
                        c.args = [ast.Name(id=n_, ctx=ast.Load()) for n_ in names]
            out.append(s)
        return out

    def run(self):
        if not self.new:
            return self
        for q, f in list(alpha.functions(self.tree)):
            n0 = len(self.done)
            self.caller_ref_names = set((alpha.reference().get(self.relpath) or {}).get(q, {}).keys())
            # what the body of a loop over a helper call binds, per helper name: these names live between two yields of the helper
            self.consumer_stores = {}
            for l_ in ast.walk(f):
                if isinstance(l_, ast.For) and isinstance(l_.iter, ast.Call):
                    callee = l_.iter.func.attr if isinstance(l_.iter.func, ast.Attribute) else l_.iter.func.id if isinstance(l_.iter.func, ast.Name) else None
                    if callee is not None:
                        self.consumer_stores.setdefault(callee, set()).update(n_.id for b_ in l_.body for n_ in ast.walk(b_) if isinstance(n_, ast.Name) and isinstance(n_.ctx, (ast.Store, ast.Del)))
            # locals of the caller that are bound (only) to a fresh instance of a class: `labeller = _BinLabeller(..)` - their type is known
            self.typed_locals = {}
            for a_ in ast.walk(f):
                if isinstance(a_, ast.Assign) and len(a_.targets) == 1 and isinstance(a_.targets[0], ast.Name) and isinstance(a_.value, ast.Call) and isinstance(a_.value.func, ast.Name):
                    self.typed_locals.setdefault(a_.targets[0].id, set()).add(a_.value.func.id)
            # `helper(*E)` with a helper of n fixed parameters is `a1, .., an = E; helper(a1, .., an)` (a different arity raises either way)
            f.body = self._expand_star_calls(f.body)
            # statement-level inlining first (keeps the helper's temporaries), then expression substitution for what is left
            f.body = self.block(f.body) or [ast.Pass()]
            self.subst_expr_helpers(f)
            for i in range(n0, len(self.done)):
                self.done[i] = (q, self.done[i][1], self.done[i][2])
        ast.fix_missing_locations(self.tree)
        return self


def coalesce_inlined_results(tree):
    """`tmp__iK = E; ...; x = tmp__iK` (the result local of an inlined helper copied into the caller's variable as the last thing) is
    `x = E; ...` with the helper local renamed to x - when x is not touched in between and tmp__iK is not used afterwards."""
    import re
    fresh = re.compile(r'__i\d+$')
    count = 0
    for f in [n for n in ast.walk(tree) if isinstance(n, (ast.FunctionDef, ast.AsyncFunctionDef))]:
        changed = True
        while changed:
            changed = False
            order = []

            def visit(n):
                if isinstance(n, (ast.FunctionDef, ast.AsyncFunctionDef, ast.ClassDef, ast.Lambda)) and n is not f:
                    return
                if isinstance(n, ast.Assign):
                    # value is evaluated before the targets are bound
                    visit(n.value)
                    for t in n.targets:
                        visit(t)
                    return
                if isinstance(n, ast.Name):
                    order.append(n)
                for ch in ast.iter_child_nodes(n):
                    visit(ch)
            for st in f.body:
                visit(st)
            pos = {id(n): k for k, n in enumerate(order)}
            for st in [x for x in ast.walk(f) if isinstance(x, ast.Assign)]:
                if len(st.targets) == 1 and isinstance(st.targets[0], ast.Name) and isinstance(st.value, ast.Name) and fresh.search(st.value.id) and id(st.value) in pos:
                    a, b = st.value.id, st.targets[0].id
                    occ_a = [pos[id(n)] for n in order if n.id == a]
                    occ_b = [pos[id(n)] for n in order if n.id == b]
                    k = pos[id(st.value)]
                    if max(occ_a) != k or any(min(occ_a) <= o < k for o in occ_b):
                        continue
                    # the copy must be in the same block as (or an enclosing block of) the first definition: sibling statements
                    blk = None
                    for par in ast.walk(f):
                        for fld in ('body', 'orelse', 'finalbody'):
                            b_ = getattr(par, fld, None)
                            if isinstance(b_, list) and any(x is st for x in b_):
                                blk = b_
                    if blk is None:
                        continue
                    first = order[min(occ_a)]
                    if not any(any(y is first for y in ast.walk(x)) for x in blk):
                        # the copy sits in a nested block (e.g. under the `if` that guards the use): fine when the caller's variable is
                        # not read after that block (inside it the two names denote the same value from the copy on)
                        in_blk = {id(y) for x in blk for y in ast.walk(x)}
                        later_b = [n for n in order if n.id == b and pos[id(n)] > k and id(n) not in in_blk]
                        loops_around = any(isinstance(par, (ast.For, ast.While)) and any(y is st for y in ast.walk(par)) and any(n.id == b and id(n) not in in_blk for n in ast.walk(par) if isinstance(n, ast.Name))
                                           for par in ast.walk(f))
                        if later_b or loops_around:
                            continue
                    for n in order:
                        if n.id == a:
                            n.id = b
                    blk.remove(st)
                    if not blk:
                        blk.append(ast.Pass())
                    count += 1
                    changed = True
                    break
    return count


def apply(tree, relpath, loader=None):
    inl = Inliner(tree, relpath, loader).run()
    if inl.done:
        coalesce_inlined_results(tree)
    # names of a helper's own module used by its inlined body become synthetic imports of the receiving module
    used = {d[1] for d in inl.done}
    bound = {n.name for n in tree.body if isinstance(n, (ast.FunctionDef, ast.ClassDef))} | \
            {t.id for n in tree.body if isinstance(n, ast.Assign) for t in n.targets if isinstance(t, ast.Name)} | \
            {(al.asname or al.name).split('.')[0] for n in tree.body if isinstance(n, (ast.Import, ast.ImportFrom)) for al in n.names}
    for h in inl.new.values():
        mn = getattr(h, 'module_needs', None)
        if h.qual in used and mn and mn[1]:
            names = [x for x in mn[1] if x not in bound]
            if names:
                modname = mn[0][:-3].replace('/', '.')
                if modname.endswith('.__init__'):
                    modname = modname[:-9]
                tree.body.insert(0, ast.ImportFrom(module=modname, names=[ast.alias(name=x, asname=None) for x in names], level=0))
                bound |= set(names)
    return inl.done, inl.skipped
