#!/venv/bin/python
"""usage: show_patch_norm.py <patch.diff> <file> <qualname> : normalised form of one function with a unified diff applied in memory"""
import sys, ast
sys.path.insert(0, '/verif')
import warnings; warnings.simplefilter('ignore')
from sa.index import RepoIndex
from sa.calib import apply_unified_diff
ov = apply_unified_diff(RepoIndex(), open(sys.argv[1]).read())
ix = RepoIndex(overlay=ov)
m = ix.module(sys.argv[2])
print('# inlined:', m.inlined)
for d in m.defs.get(sys.argv[3], []):
    print(ast.unparse(d))
