#!/venv/bin/python
"""usage: try_keeps.py <dir-with-keep*.diff | seeded-keep dirs> [props]   Applies every behaviour-preserving patch to a scratch worktree
and runs the static checks (default: all 20) against it: every check must still exit 0 (or report only known findings)."""
import glob, os, subprocess, sys
sys.path.insert(0, '/verif')
d = sys.argv[1]
wt = '/tmp/wt/_try'
if not os.path.isdir(wt):
    subprocess.check_call(['git', '-C', '/repo', 'worktree', 'add', '-q', '--detach', wt, 'HEAD'])
subprocess.check_call(['git', '-C', wt, 'reset', '-q', '--hard'])

subprocess.check_call(['git', '-C', wt, 'clean', '-fdq'])
subprocess.check_call(['git', '-C', wt, 'checkout', '-q', '--detach', subprocess.check_output(['git', '-C', '/repo', 'rev-parse', 'HEAD']).decode().strip()])
os.environ['SCMO_REPO'] = wt
from sa.run import check, ALL
props = sys.argv[2].split(',') if len(sys.argv) > 2 else ALL
patches = sorted(glob.glob(os.path.join(d, 'keep*.diff')) + glob.glob(os.path.join(d, '*', 'keep.diff')))
bad = 0
for p in patches:
    r = subprocess.run(['git', '-C', wt, 'apply', '--3way', p], capture_output=True, text=True)
    if r.returncode:
        print(p, 'DOES NOT APPLY', r.stderr[:200]); continue
    try:
        res = []
        for pr in props:
            code, ctx, lines = check(pr, 'quick', 0, write=False)
            if code != 0:
                bad += 1
                res.append((pr, code, [l[:400] for l in lines[1:4]]))
        print(f'== {p}: ' + ('silent' if not res else 'ALARM'))
        for pr, code, ls in res:
            print(f'   [{pr}] exit {code}')
            for l in ls:
                print('      ', l)
    finally:
        subprocess.check_call(['git', '-C', wt, 'reset', '-q', '--hard'])

        subprocess.check_call(['git', '-C', wt, 'clean', '-fdq'])
sys.exit(1 if bad else 0)
