#!/venv/bin/python
"""usage: try_mutants.py <prop> [dir]   - applies each patch*.diff found in dir (default /tmp/wt/<prop>.out, or
/verif/seeded/<prop>/*) to a scratch worktree and runs the static check against that tree (no evidence written)."""
import glob, os, subprocess, sys
sys.path.insert(0, '/verif')
prop = sys.argv[1]
d = sys.argv[2] if len(sys.argv) > 2 else f'/tmp/wt/{prop}.out'
wt = '/tmp/wt/_try'
if not os.path.isdir(wt):
    subprocess.check_call(['git', '-C', '/repo', 'worktree', 'add', '-q', '--detach', wt, 'HEAD'])
subprocess.check_call(['git', '-C', wt, 'reset', '-q', '--hard'])

subprocess.check_call(['git', '-C', wt, 'clean', '-fdq'])
subprocess.check_call(['git', '-C', wt, 'checkout', '-q', '--detach', subprocess.check_output(['git', '-C', '/repo', 'rev-parse', 'HEAD']).decode().strip()])
os.environ['SCMO_REPO'] = wt
from sa.run import check
patches = sorted(glob.glob(os.path.join(d, 'patch*.diff')) + glob.glob(os.path.join(d, '*', 'patch.diff')))
props = sys.argv[3].split(',') if len(sys.argv) > 3 else [prop]
for p in patches:
    r = subprocess.run(['git', '-C', wt, 'apply', '--3way', p], capture_output=True, text=True)
    if r.returncode:
        print(p, 'DOES NOT APPLY', r.stderr[:200]); continue
    try:
        for pr in props:
            code, ctx, lines = check(pr, 'quick', 0, write=False)
            print(f'== {p} [{pr}] -> exit {code}')
            for l in lines[1:4]:
                print('   ', l[:300])
    finally:
        subprocess.check_call(['git', '-C', wt, 'reset', '-q', '--hard'])

        subprocess.check_call(['git', '-C', wt, 'clean', '-fdq'])
