#!/venv/bin/python
"""Regenerates sa/reference/locals.json (use signatures of the locals of every function of the package, see sa/alpha.py) and
sa/reference/functions.json (the functions that exist, see sa/inline.py) from the current /repo working tree.
Run after a deliberate change of /repo (e.g. a fix: commit) has been reviewed; never run by a check."""
import ast, json, os, sys, warnings
sys.path.insert(0, '/verif')
from sa.index import RepoIndex
from sa.normalize import normalize
from sa import alpha

ix = RepoIndex()
out = {}
funcs = {}
globs = {}
for p in ix.pyfiles():
    try:
        with warnings.catch_warnings():
            warnings.simplefilter('ignore')
            tree = ast.parse(ix.read(p))
    except SyntaxError:
        continue
    tree, _ = normalize(tree)
    snap = alpha.snapshot(tree)
    out[p] = {q: v for q, v in snap.items() if v}
    funcs[p] = sorted(q for q, _f in alpha.functions(tree))
    globs[p] = sorted({t.id for st in tree.body if isinstance(st, (ast.Assign, ast.AugAssign, ast.AnnAssign)) for t in ast.walk(st) if isinstance(t, ast.Name) and isinstance(t.ctx, ast.Store)})
d = os.path.join('/verif', 'sa', 'reference')
os.makedirs(d, exist_ok=True)
json.dump(out, open(os.path.join(d, 'locals.json'), 'w'), sort_keys=True, separators=(',', ':'))
json.dump(funcs, open(os.path.join(d, 'functions.json'), 'w'), sort_keys=True, indent=0)
json.dump(globs, open(os.path.join(d, 'globals.json'), 'w'), sort_keys=True, indent=0)
print('pinned', len(out), 'files,', sum(len(v) for v in out.values()), 'functions')
