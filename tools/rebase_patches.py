#!/venv/bin/python
"""usage: rebase_patches.py [-n]   Re-expresses every stored patch (keeps/*/keep.diff, seeded/*/patch.diff) against /repo's current HEAD: the patch is
applied with a 3-way merge in a scratch worktree and the resulting diff replaces the stored one when it differs (after a reviewed `fix:` commit in
/repo moved the context of a hunk).  -n only lists what would change.  Patches that conflict are reported and left alone."""
import glob, os, subprocess, sys
WT = '/tmp/wt/_keepm'
dry = '-n' in sys.argv
head = subprocess.check_output(['git', '-C', '/repo', 'rev-parse', 'HEAD'], text=True).strip()
if not os.path.isdir(WT):
    subprocess.check_call(['git', '-C', '/repo', 'worktree', 'add', '-q', '--detach', WT, head])
subprocess.check_call(['git', '-C', WT, 'checkout', '-q', '--detach', head])


def clean():
    subprocess.check_call(['git', '-C', WT, 'reset', '-q', '--hard'])
    subprocess.check_call(['git', '-C', WT, 'clean', '-fdq'])


changed = 0
for d in sorted(glob.glob('/verif/keeps/*/keep.diff') + glob.glob('/verif/seeded/*/patch.diff')):
    clean()
    plain = subprocess.run(['git', '-C', WT, 'apply', '--check', d], capture_output=True)
    if plain.returncode == 0:
        continue
    r = subprocess.run(['git', '-C', WT, 'apply', '--3way', d], capture_output=True, text=True)
    if r.returncode:
        print('CONFLICT', d, r.stderr.strip()[:200])
        continue
    subprocess.check_call(['git', '-C', WT, 'add', '-A', '-N', '.'])
    new = subprocess.check_output(['git', '-C', WT, 'diff', 'HEAD'], text=True)
    print('rebased' if not dry else 'would rebase', d)
    changed += 1
    if not dry:
        open(d, 'w').write(new)
clean()
print(changed, 'patches re-expressed against', head[:7])
