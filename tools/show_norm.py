#!/venv/bin/python
"""usage: show_norm.py <keep-id | seeded-id | -> <relpath-suffix> <qualname>   prints the canonicalised (N1-N7) source of a function as the
rules see it, for the current tree ('-') or with a stored patch applied."""
import ast, glob, os, subprocess, sys, importlib.util
sys.path.insert(0, '/verif')
kid, rel, q = sys.argv[1:4]
ov = {}
if kid != '-':
    spec = importlib.util.spec_from_file_location('km', '/verif/tools/keep_matrix.py')
    km = importlib.util.module_from_spec(spec); spec.loader.exec_module(km)
    if not os.path.isdir(km.WT):
        subprocess.check_call(['git', '-C', '/repo', 'worktree', 'add', '-q', '--detach', km.WT, 'HEAD'])
    d = f'/verif/seeded/{kid[2:]}/patch.diff' if kid.startswith('s:') else (f'/verif/keeps/{kid}/keep.diff' if os.path.exists(f'/verif/keeps/{kid}/keep.diff') else f'/verif/seeded/{kid}/patch.diff')
    ov = km.patched_files(d)
from sa.index import RepoIndex
ix = RepoIndex(overlay=ov)
cands = [p for p in ix.pyfiles() if p.endswith('/' + rel) or p == rel]
m = ix.module(cands[0])
print('# inlined:', m.inlined); print('# not inlined:', m.not_inlined); print('# renamed:', m.renamed.get(q)); print('# propagated:', m.propagated.get(q))
for n in m.defs.get(q, []):
    print(ast.unparse(n))
