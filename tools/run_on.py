#!/venv/bin/python
"""usage: run_on.py <keep-id | s:seeded-id> <prop> : runs one check on one stored patch (as overlay) and prints all non-discharged obligations"""
import sys, os
sys.path.insert(0, '/verif')
sys.path.insert(0, '/verif/tools')
import warnings; warnings.simplefilter('ignore')
from keep_matrix import patched_files, WT
import subprocess
kid, prop = sys.argv[1], sys.argv[2]
d = f'/verif/seeded/{kid[2:]}/patch.diff' if kid.startswith('s:') else f'/verif/keeps/{kid}/keep.diff'
subprocess.check_call(['git', '-C', WT, 'checkout', '-q', '--detach', subprocess.check_output(['git', '-C', '/repo', 'rev-parse', 'HEAD']).decode().strip()])
ov = patched_files(d)
from sa.run import check
code, ctx, lines = check(prop, 'quick', 0, overlay=ov, write=False)
print('exit', code)
for l in lines:
    print(l[:600])
for o in (ctx.obligations if ctx else []):
    if o.status != 'discharged':
        print(o.status, o.rule, o.construct, o.detail[:400])
