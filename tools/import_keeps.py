#!/venv/bin/python
"""usage: import_keeps.py <base> <tag> [prop...]   copies <base>/<prop>.out/keepK.diff + keepK.json to /verif/keeps/<prop>-<tag>-K/{keep.diff,meta.json}"""
import glob, json, os, re, shutil, sys
base, tag = sys.argv[1], sys.argv[2]
props = sys.argv[3:] or sorted({os.path.basename(d)[:-4] for d in glob.glob(f'{base}/C*.out')})
for p in props:
    for f in sorted(glob.glob(f'{base}/{p}.out/keep*.diff')):
        k = re.search(r'keep(\d+)\.diff', f).group(1)
        d = f'/verif/keeps/{p}-{tag}-{k}'
        if os.path.exists(d):
            continue
        os.makedirs(d)
        shutil.copy(f, f'{d}/keep.diff')
        try:
            m = json.load(open(f'{base}/{p}.out/keep{k}.json'))
        except Exception:
            m = {'property': p, 'kind': 'mixed', 'summary': None}
        m['origin'] = 'independent sub-agent given only the property text and a scratch worktree (round ' + tag + ')'
        json.dump(m, open(f'{d}/meta.json', 'w'), indent=1)
        print('imported', d)
