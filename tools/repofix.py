#!/venv/bin/python
"""usage: repofix.py <relpath> <old-file> <new-file>  : exact single-occurrence replacement in /repo preserving CRLF."""
import sys
rel, oldf, newf = sys.argv[1:4]
p = '/repo/' + rel
s = open(p, newline='').read()
crlf = '\r\n' in s
old = open(oldf).read(); new = open(newf).read()
if crlf:
    old = old.replace('\n', '\r\n'); new = new.replace('\n', '\r\n')
assert s.count(old) == 1, f'{s.count(old)} occurrences'
open(p, 'w', newline='').write(s.replace(old, new))
print('patched', rel)
