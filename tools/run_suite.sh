#!/bin/sh
# Runs the repository's pinned test suite (BASELINE.json cmd) against /repo and prints the summary line.
cd /repo && /venv/bin/python -m pytest -ra -q -p no:cacheprovider --timeout=900 --continue-on-collection-errors "$@" 2>&1 | tail -5
