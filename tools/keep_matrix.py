#!/venv/bin/python
"""Runs every check against every stored behaviour-preserving patch (keeps/<id>/keep.diff) and writes keeps/MATRIX.md.
Every check must stay silent (exit 0).  usage: keep_matrix.py [id-prefix ...] [-v]
The patched file contents are obtained once per patch in a scratch worktree and handed to the checks as in-memory overlays."""
import glob, json, os, re, subprocess, sys
from multiprocessing import Pool
sys.path.insert(0, '/verif')
WT = '/tmp/wt/_keepm'


def patched_files(diff):
    subprocess.check_call(['git', '-C', WT, 'reset', '-q', '--hard'])
    subprocess.check_call(['git', '-C', WT, 'clean', '-fdq'])
    r = subprocess.run(['git', '-C', WT, 'apply', '--3way', diff], capture_output=True, text=True)
    if r.returncode:
        return None
    files = [l[3:].strip() for l in subprocess.check_output(['git', '-C', WT, 'status', '--porcelain', '--untracked-files=all'], text=True).splitlines() if l.strip()]
    files = [f.split(' -> ')[-1] for f in files]
    ov = {}
    for f in files:
        p = os.path.join(WT, f)
        if os.path.isfile(p):
            ov[f] = open(p, 'rb').read().decode('utf-8', errors='replace').replace('\r\n', '\n')
    subprocess.check_call(['git', '-C', WT, 'reset', '-q', '--hard'])
    subprocess.check_call(['git', '-C', WT, 'clean', '-fdq'])
    return ov


def work(job):
    kid, prop, ov = job
    import warnings
    warnings.simplefilter('ignore')
    from sa.run import check
    try:
        code, ctx, lines = check(prop, 'quick', 0, overlay=ov, write=False)
    except Exception as e:
        return kid, prop, 3, [repr(e)[:300]]
    return kid, prop, code, [l[:500] for l in lines[1:4]] if code else []


def main():
    args = [a for a in sys.argv[1:] if not a.startswith('-')]
    verbose = '-v' in sys.argv
    if not os.path.isdir(WT):
        subprocess.check_call(['git', '-C', '/repo', 'worktree', 'add', '-q', '--detach', WT, 'HEAD'])
    subprocess.check_call(['git', '-C', WT, 'reset', '-q', '--hard'])
    subprocess.check_call(['git', '-C', WT, 'clean', '-fdq'])
    subprocess.check_call(['git', '-C', WT, 'checkout', '-q', '--detach', subprocess.check_output(['git', '-C', '/repo', 'rev-parse', 'HEAD']).decode().strip()])
    from sa.run import ALL
    jobs = []
    ids = []
    for d in sorted(glob.glob('/verif/keeps/*/keep.diff')):
        kid = os.path.basename(os.path.dirname(d))
        if args and not any(kid.startswith(a) for a in args):
            continue
        ov = patched_files(d)
        if ov is None:
            print(kid, 'DOES NOT APPLY')
            continue
        ids.append(kid)
        for p in ALL:
            jobs.append((kid, p, ov))
    res = {}
    with Pool(16) as pool:
        for kid, prop, code, lines in pool.imap_unordered(work, jobs, chunksize=2):
            res.setdefault(kid, {})[prop] = (code, lines)
    bad = 0
    rows = []
    for kid in ids:
        al = {p: v for p, v in res[kid].items() if v[0] != 0}
        try:
            meta = json.load(open(f'/verif/keeps/{kid}/meta.json'))
        except Exception:
            meta = {}
        rows.append((kid, meta.get('kind', '?'), al, (meta.get('summary') or '')[:110].replace('|', '/').replace('\n', ' ')))
        if al:
            bad += 1
            print(f'== {kid} ({meta.get("kind")}): ALARM ' + ', '.join(f'{p}:exit{v[0]}' for p, v in sorted(al.items())))
            if verbose:
                for p, v in sorted(al.items()):
                    for l in v[1]:
                        if 'KNOWN-FINDING' not in l:
                            print('      ', l)
    if not args:
        with open('/verif/keeps/MATRIX.md', 'w') as h:
            h.write('# Behaviour-preserving patches x checks\n\nEvery patch keeps the property (suite 81 passed, differential harness of the author identical); every check must stay silent.\n\n')
            h.write(f'silent on {len(ids) - bad} of {len(ids)} patches\n\n| patch | kind | result | summary |\n|---|---|---|---|\n')
            for kid, kind, al, summ in rows:
                h.write(f'| {kid} | {kind} | ' + ('silent' if not al else 'ALARM ' + ' '.join(f'{p}(exit {v[0]})' for p, v in sorted(al.items()))) + f' | {summ} |\n')
    print(f'silent on {len(ids) - bad} of {len(ids)} patches')
    return 1 if bad else 0


if __name__ == '__main__':
    sys.exit(main())
