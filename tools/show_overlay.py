#!/venv/bin/python
"""usage: show_overlay.py <prop> <overlay-name-substring> <relpath-suffix> <qualname> : the normalised form of one function under one hand-made
calibration overlay (sa/calib_data/<prop>.py), plus the non-discharged obligations of the check on that overlay"""
import sys, ast, importlib
sys.path.insert(0, '/verif')
import warnings; warnings.simplefilter('ignore')
from sa.index import RepoIndex
from sa.calib import apply_edits
from sa.run import check
prop, name, suffix, qual = sys.argv[1:5]
mod = importlib.import_module(f'sa.calib_data.{prop}')
ov = [o for o in mod.OVERLAYS if name in o['name']][0]
overlay = apply_edits(RepoIndex(), ov['edits'])
ix = RepoIndex(overlay=overlay)
rel = [p for p in overlay if p.endswith(suffix)] or ['singlecellmultiomics/' + suffix]
m = ix.module(rel[0])
for n in m.defs.get(qual, []):
    print(ast.unparse(n))
code, ctx, lines = check(prop, 'quick', 0, overlay=overlay, write=False)
print('exit', code)
for o in (ctx.obligations if ctx else []):
    if o.status != 'discharged':
        print(o.status, o.rule, o.construct, o.detail[:400])
for l in lines[:5]:
    print(l[:400])
