#!/venv/bin/python
"""usage: make_round.py <kind: mutants|keeps> <base dir>   Creates scratch worktrees <base>/<prop>, <base>/<prop>.out/{property.txt,PROMPT.txt} for a
further round of independent sub-agent work (seeded defects or behaviour-preserving edits); earlier rounds' summaries are listed so that
they are not repeated.  Nothing is written into /repo's working tree."""
import glob, json, os, subprocess, sys
kind, base = sys.argv[1], sys.argv[2]
os.makedirs(base, exist_ok=True)
head = subprocess.check_output(['git', '-C', '/repo', 'rev-parse', 'HEAD']).decode().strip()
props = [json.loads(l) for l in open('/verif/properties.jsonl')]
src_tmpl = open('/verif/tools/prompts/mutants.txt').read() if kind == 'mutants' else open('/verif/tools/prompts/keeps.txt').read()
for p in props:
    pid = p['id']
    wt = f'{base}/{pid}'
    out = f'{base}/{pid}.out'
    if not os.path.isdir(wt):
        subprocess.check_call(['git', '-C', '/repo', 'worktree', 'add', '-q', '--detach', wt, head])
    os.makedirs(out, exist_ok=True)
    with open(f'{out}/property.txt', 'w') as h:
        h.write(f"{pid}: {p['title']}\n\n{p['statement']}\n\nQuantifier: {p['quantifier']['text']}\n")
    if kind == 'mutants':
        earlier = []
        for d in sorted(glob.glob(f'/verif/seeded/{pid}-*')):
            m = json.load(open(f'{d}/meta.json'))
            earlier.append('- ' + (m.get('summary') or '')[:330].replace('\n', ' '))
        txt = src_tmpl.replace('/tmp/wt2/C01', wt).replace('"C01"', f'"{pid}"')
        txt += ('\n\n\nEarlier rounds already produced the following seeded defects for this property; do NOT repeat them or trivial variations of them - find DIFFERENT '
                'mechanisms, different functions / files, different clauses of the property (the property has several clauses; cover ones not touched below), and prefer subtle '
                'multi-site, data-dependent or refactoring-slip breakages (for instance a plausible refactoring of the implementing code - helper extraction, loop rewrite, '
                'changed data structure - that is ALMOST behaviour preserving):\n' + '\n'.join(earlier) + '\n')
    else:
        earlier = []
        for d in sorted(glob.glob(f'/verif/keeps/{pid}-*')):
            if not os.path.exists(f'{d}/meta.json'):
                continue
            m = json.load(open(f'{d}/meta.json'))
            earlier.append(f"  - ({m.get('kind')}) " + (m.get('summary') or '')[:300].replace('\n', ' '))
        t = src_tmpl
        a = t.index('This is a SECOND round.')
        b = t.index('Make each patch look like a real maintenance pull request')
        t = t[:a] + 'This is a FURTHER round. Earlier rounds already produced these edits for this property - do NOT repeat them, pick different functions, different statements or different transformations (deeper restructurings are welcome: changed loop structure, changed intermediate data structures, merged or split functions, code moved between modules):\n' + '\n'.join(earlier) + '\n\n' + t[b:]
        txt = t.replace('/tmp/wt4/C01', wt).replace('"C01"', f'"{pid}"')
    open(f'{out}/PROMPT.txt', 'w').write(txt)
    print(pid, len(txt))
