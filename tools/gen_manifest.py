#!/venv/bin/python
"""Regenerates /verif/MANIFEST.json from the META blocks of the rule modules (claimed) and NOT_APPLICABLE below."""
import importlib, json, os, sys
sys.path.insert(0, os.path.dirname(os.path.dirname(os.path.abspath(__file__))))
from sa.core import RULES
V = '/verif'
props = [json.loads(l) for l in open(f'{V}/properties.jsonl')]
NOTE = ('Trusted base: CPython ast; the sa/ engine (statement CFG with exception edges, dominators, path enumeration, '
        'ordering/linear/constant abstract domains); the slot tables in sa/rules/slots.py and in each rule module '
        '(which names are sinks, sentinels, success messages, documented exceptions), each confirmed by reading. '
        'Unresolved calls are treated conservatively. The check inspects /repo\'s working tree on every run and never '
        'imports or executes repository code.')
NA_DEFAULT = 'check under construction (see DESIGN.md section 5); not yet claimed'
NA = {}
checks, na = [], []
for p in props:
    pid = p['id']
    meta = None
    try:
        m = importlib.import_module(f'sa.rules.{pid}')
        meta = getattr(m, 'META', None)
    except ModuleNotFoundError:
        pass
    if meta and pid in RULES:
        # the clause list is generated from the rule registry, so the claim always names exactly the rules that run
        clauses = '; '.join(f'{rid}: {text}' for rid, fn, text, tier in RULES[pid])
        meta = dict(meta, text=meta['text'] + ' Clauses decided (one rule each; a rule reports the construct that violates it): ' + clauses + '.')
        checks.append({
            'property_id': pid,
            'quick_cmd': f'/venv/bin/python -m sa.run {pid} --tier quick',
            'thorough_cmd': f'/venv/bin/python -m sa.run {pid} --tier thorough',
            'evidence_file': f'/verif/evidence/{pid}.json',
            'replay_cmd_template': '/venv/bin/python -m sa.run --replay {path}',
            'engine': 'sa',
            'level_claimed': {'category': 'other', 'text': meta['text'], 'design_ref': meta.get('design_ref', 'DESIGN.md section 5')},
            'level_note': NOTE + (' ' + meta['note'] if meta.get('note') else ''),
            'technique': meta['technique'],
        })
    else:
        na.append({'property_id': pid, 'reason': NA.get(pid, NA_DEFAULT)})
man = {
    'version': 1,
    'setup_cmd': '/venv/bin/python -m sa.run --selfcheck',
    'hooks': {'guard': 'SCMO_VERIF', 'enable': 'no hooks: the checks are static and read /repo\'s working tree; SCMO_VERIF is not consulted by any repository code',
              'baseline_off_cmd': 'cd /repo && /venv/bin/python -m pytest -ra -q -p no:cacheprovider --timeout=900 --continue-on-collection-errors',
              'source_commits': [], 'add_only': True},
    'engines': [{'name': 'sa', 'path': '/verif/sa', 'serves_properties': [c['property_id'] for c in checks],
                 'kind_free_text': 'repository-specific static analyser on CPython ast: RepoIndex, statement CFG with exception edges, dominators, bounded path enumeration, small abstract domains; calibration by in-memory mutation overlays'}],
    'checks': checks,
    'not_applicable': na,
    'notes': 'All checks are static (ast-based). Genuine defects found are repaired by fix: commits in /repo and listed in known_findings.json.',
}
json.dump(man, open(f'{V}/MANIFEST.json', 'w'), indent=1)
print('claimed:', [c['property_id'] for c in checks], 'n/a:', len(na))
