#!/bin/bash
# usage: keeps_delivered.sh <base> <out-file> <prop>... : one quick check per delivered keep diff, appended to <out-file>
base=$1; out=$2; shift 2
for p in "$@"; do for d in $base/$p.out/keep?.diff; do k=$(basename $d .diff); r=$(/verif/tools/run_patch.py $d $p | tail -1); echo "$p $k $r" | tee -a $out; done; done
