#!/venv/bin/python
"""usage: run_patch.py <patch.diff> <prop> [-v] : one quick check on a unified diff applied in memory to the current /repo sources"""
import sys
sys.path.insert(0, '/verif')
import warnings; warnings.simplefilter('ignore')
from sa.index import RepoIndex
from sa.calib import apply_unified_diff
from sa.run import check
ov = apply_unified_diff(RepoIndex(), open(sys.argv[1]).read())
code, ctx, lines = check(sys.argv[2], 'quick', 0, overlay=ov, write=False)
print('exit', code)
if '-v' in sys.argv:
    for l in lines[:6]:
        print(l[:500])
    for o in (ctx.obligations if ctx else []):
        if o.status != 'discharged':
            print(o.status, o.rule, o.construct, o.detail[:300])
