#!/venv/bin/python
"""Runs every kept seeded change (/verif/seeded/<prop>-<k>/patch.diff) against the static check of its property, on a scratch
worktree of /repo HEAD (falling back to the change's base commit when it no longer applies), and writes seeded/MATRIX.md +
updates meta.json['static_check']. Nothing is ever applied to /repo itself."""
import glob, json, os, subprocess, sys
sys.path.insert(0, '/verif')
wt = '/tmp/wt/_matrix'
head = subprocess.check_output(['git', '-C', '/repo', 'rev-parse', 'HEAD']).decode().strip()
if not os.path.isdir(wt):
    subprocess.check_call(['git', '-C', '/repo', 'worktree', 'add', '-q', '--detach', wt, head])
os.environ['SCMO_REPO'] = wt
from sa.run import check
rows = []
# SEEDED_ONLY=id1,id2 re-evaluates those changes only and keeps the stored rows of seeded/MATRIX.md for the others
only = set(filter(None, os.environ.get('SEEDED_ONLY', '').split(',')))
stored = {}
if only and os.path.exists('/verif/seeded/MATRIX.md'):
    for l in open('/verif/seeded/MATRIX.md'):
        c = [x.strip() for x in l.strip().strip('|').split(' | ')]
        if len(c) == 5 and c[0].startswith('C') and c[1].startswith('C'):
            stored[c[0]] = tuple(c)
for d in sorted(glob.glob('/verif/seeded/C*-*')):
    if only and os.path.basename(d) not in only and os.path.basename(d) in stored:
        rows.append(stored[os.path.basename(d)])
        continue
    meta = json.load(open(f'{d}/meta.json'))
    prop = meta['property']
    subprocess.check_call(['git', '-C', wt, 'reset', '-q', '--hard'])

    subprocess.check_call(['git', '-C', wt, 'clean', '-fdq'])
    subprocess.check_call(['git', '-C', wt, 'checkout', '-q', '--detach', head])
    base = 'HEAD'
    r = subprocess.run(['git', '-C', wt, 'apply', '--3way', f'{d}/patch.diff'], capture_output=True, text=True)
    if r.returncode:
        subprocess.check_call(['git', '-C', wt, 'reset', '-q', '--hard'])

        subprocess.check_call(['git', '-C', wt, 'clean', '-fdq'])
        subprocess.check_call(['git', '-C', wt, 'checkout', '-q', '--detach', meta['base_commit']])
        base = meta['base_commit'][:7]
        r = subprocess.run(['git', '-C', wt, 'apply', f'{d}/patch.diff'], capture_output=True, text=True)
        if r.returncode:
            rows.append((os.path.basename(d), prop, 'n/a', 'patch does not apply', ''))
            continue
    code, ctx, lines = check(prop, 'quick', 0, write=False)
    viol = sorted({o.rule for o in (ctx.obligations if ctx else []) if o.status == 'violated'})
    # ignore rules that are violated on the base tree as well (known findings / defects fixed later)
    subprocess.check_call(['git', '-C', wt, 'reset', '-q', '--hard'])

    subprocess.check_call(['git', '-C', wt, 'clean', '-fdq'])
    code0, ctx0, _ = check(prop, 'quick', 0, write=False)
    base_viol = {o.construct for o in (ctx0.obligations if ctx0 else []) if o.status == 'violated'}
    new = [o for o in (ctx.obligations if ctx else []) if o.status == 'violated' and o.construct not in base_viol]
    verdict = 'DETECTED' if new else ('analysis-error' if code == 2 else 'missed')
    rows.append((os.path.basename(d), prop, verdict, ', '.join(sorted({o.rule for o in new})), (meta.get('summary') or '')[:110].replace('|', '/').replace('\n', ' ')))
    meta['static_check'] = {'at': head[:7], 'applied_on': base, 'verdict': verdict, 'rules': sorted({o.rule for o in new}), 'first': new[0].detail[:300] if new else None}
    json.dump(meta, open(f'{d}/meta.json', 'w'), indent=1)
subprocess.check_call(['git', '-C', wt, 'reset', '-q', '--hard'])

subprocess.check_call(['git', '-C', wt, 'clean', '-fdq'])
with open('/verif/seeded/MATRIX.md', 'w') as h:
    h.write(f'# Seeded changes vs static checks (at /repo {head[:7]})\n\n| seeded | property | verdict | rules that fire | change |\n|---|---|---|---|---|\n')
    for r in rows:
        h.write('| ' + ' | '.join(r) + ' |\n')
    det = sum(1 for r in rows if r[2] == 'DETECTED')
    h.write(f'\n{det} of {len(rows)} seeded changes detected.\n')
print(f'{sum(1 for r in rows if r[2]=="DETECTED")}/{len(rows)} detected')
for r in rows:
    if r[2] != 'DETECTED':
        print(r)
