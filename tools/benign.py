#!/venv/bin/python
"""Mechanical behaviour-preserving transformations of the files a check consults, applied as an in-memory overlay; every check must
stay silent (exit 0) on them.  usage: benign.py [props...]
  T1 reformat   : ast.unparse(ast.parse(source)) of every consulted file (comments / layout / quoting change, semantics identical)
  T2 rename     : every pure local variable of every function (not parameters, not closures, not globals) gets the suffix `_rn`
  T3 flipcmp    : every comparison `a < b` is rewritten `b > a` (same for <=, >, >=) when both sides are side-effect free names/attributes/constants
"""
import ast
import json
import os
import symtable
import sys

sys.path.insert(0, '/verif')
from sa.run import check, ALL
from sa.index import RepoIndex


def t_reformat(src, path):
    return ast.unparse(ast.parse(src)) + '\n'


def t_rename(src, path):
    tree = ast.parse(src)
    try:
        top = symtable.symtable(src, path, 'exec')
    except SyntaxError:
        return src
    # map (function name, lineno) -> renamable locals
    ren = {}

    def walk(tab):
        if tab.get_type() == 'function':
            names = set()
            child_free = set()
            for ch in tab.get_children():
                for s in ch.get_symbols():
                    if s.is_free() or (s.is_global() and not s.is_declared_global()):
                        child_free.add(s.get_name())
                # conservatively: any name used in a child scope
                for s in ch.get_symbols():
                    child_free.add(s.get_name())
            for s in tab.get_symbols():
                n = s.get_name()
                if s.is_local() and not s.is_parameter() and not s.is_free() and not s.is_global() and n not in child_free and not n.startswith('__') and s.is_assigned() and not s.is_imported() and not s.is_namespace():
                    names.add(n)
            ren[(tab.get_name(), tab.get_lineno())] = names
        for ch in tab.get_children():
            walk(ch)
    walk(top)

    class R(ast.NodeTransformer):
        def __init__(self):
            self.stack = []

        def visit_FunctionDef(self, node):
            names = ren.get((node.name, node.lineno), set())
            # keyword argument names in calls must not be renamed: they are not Name nodes, fine
            self.stack.append(names)
            node.body = [self.visit(s) for s in node.body]
            self.stack.pop()
            return node
        visit_AsyncFunctionDef = visit_FunctionDef

        def visit_Lambda(self, node):
            return node

        def visit_ClassDef(self, node):
            self.stack.append(set())
            self.generic_visit(node)
            self.stack.pop()
            return node

        def visit_Name(self, node):
            if self.stack and node.id in self.stack[-1]:
                return ast.copy_location(ast.Name(id=node.id + '_rn', ctx=node.ctx), node)
            return node

        def visit_ListComp(self, node):
            return self._comp(node)
        visit_SetComp = visit_DictComp = visit_GeneratorExp = visit_ListComp

        def _comp(self, node):
            # comprehension targets are their own scope: names bound there shadow; skip renaming inside when they collide
            bound = {n.id for g in node.generators for n in ast.walk(g.target) if isinstance(n, ast.Name)}
            if self.stack and bound & self.stack[-1]:
                saved = self.stack[-1]
                self.stack[-1] = saved - bound
                self.generic_visit(node)
                self.stack[-1] = saved
                return node
            self.generic_visit(node)
            return node

        def visit_ExceptHandler(self, node):
            if self.stack and node.name in self.stack[-1]:
                node.name = node.name + '_rn'
            self.generic_visit(node)
            return node
    new = R().visit(tree)
    ast.fix_missing_locations(new)
    out = ast.unparse(new) + '\n'
    compile(out, path, 'exec')
    return out


def t_flipcmp(src, path):
    tree = ast.parse(src)
    simple = (ast.Name, ast.Attribute, ast.Constant)

    def is_simple(e):
        return isinstance(e, simple) or (isinstance(e, ast.Subscript) and is_simple(e.value) and isinstance(e.slice, (ast.Constant, ast.Name))) or \
            (isinstance(e, ast.BinOp) and is_simple(e.left) and is_simple(e.right)) or (isinstance(e, ast.UnaryOp) and is_simple(e.operand)) or \
            (isinstance(e, ast.Call) and isinstance(e.func, ast.Name) and e.func.id == 'len' and len(e.args) == 1 and is_simple(e.args[0]))

    class F(ast.NodeTransformer):
        def visit_Compare(self, node):
            self.generic_visit(node)
            if len(node.ops) == 1 and type(node.ops[0]) in (ast.Lt, ast.LtE, ast.Gt, ast.GtE) and is_simple(node.left) and is_simple(node.comparators[0]):
                flip = {ast.Lt: ast.Gt, ast.LtE: ast.GtE, ast.Gt: ast.Lt, ast.GtE: ast.LtE}[type(node.ops[0])]
                return ast.copy_location(ast.Compare(left=node.comparators[0], ops=[flip()], comparators=[node.left]), node)
            return node
    new = F().visit(tree)
    ast.fix_missing_locations(new)
    return ast.unparse(new) + '\n'


TRANSFORMS = {'reformat': t_reformat, 'rename': t_rename, 'flipcmp': t_flipcmp}


def materialize(tname, root):
    """apply a transform to every package file under <root>/singlecellmultiomics in place (scratch copies only; used to validate
    with the test suite that the transformation preserves behaviour)"""
    n = 0
    for dp, dn, fn in os.walk(os.path.join(root, 'singlecellmultiomics')):
        for f in fn:
            if f.endswith('.py'):
                p = os.path.join(dp, f)
                s = open(p, encoding='utf-8', errors='surrogateescape').read()
                try:
                    out = TRANSFORMS[tname](s, p)
                except Exception as e:
                    print('skip', p, e)
                    continue
                open(p, 'w', encoding='utf-8', errors='surrogateescape').write(out)
                n += 1
    print('transformed', n, 'files')


def main():
    if len(sys.argv) > 1 and sys.argv[1] == '--materialize':
        assert not os.path.realpath(sys.argv[3]).startswith('/repo'), 'scratch copies only'
        return materialize(sys.argv[2], sys.argv[3])
    props = sys.argv[1:] or ALL
    bad = 0
    for prop in props:
        code, ctx, lines = check(prop, 'quick', 0, write=False)
        if ctx is None:
            print(prop, 'baseline failed')
            continue
        files = [p for p in ctx.ix.consulted if p.endswith('.py')]
        for tname, tf in TRANSFORMS.items():
            ix = RepoIndex()
            overlay = {}
            for p in files:
                try:
                    overlay[p] = tf(ix.read(p), p)
                except Exception as e:
                    print(f'  ({prop} {tname}: transform failed on {p}: {e})')
            c2, ctx2, lines2 = check(prop, 'quick', 0, overlay=overlay, write=False)
            status = 'ok' if c2 == code else f'CHANGED exit {code} -> {c2}'
            if c2 != code:
                bad += 1
                print(f'{prop} {tname}: {status}')
                for l in lines2[1:4]:
                    print('     ', l[:260])
            else:
                print(f'{prop} {tname}: ok')
    return 1 if bad else 0


if __name__ == '__main__':
    sys.exit(main())
