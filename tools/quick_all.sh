#!/bin/bash
# quick check of all 20 properties in parallel; prints only runs that are not clean (exit != 0), then a one-line tally
cd /verif
tier=${1:-quick}
seq -w 1 20 | xargs -P ${PAR:-16} -I{} sh -c "/venv/bin/python -m sa.run C{} --tier $tier > /tmp/qa_C{}.out 2>&1; echo \"C{} \$?\" " | sort > /tmp/qa_summary.txt
grep -v " 0$" /tmp/qa_summary.txt | while read p rc; do echo "== $p exit $rc"; grep "ANALYSIS\|VIOLATION\|violated\|undecided" /tmp/qa_$p.out | head -5 | cut -c1-300; done
echo "clean: $(grep -c ' 0$' /tmp/qa_summary.txt)/20"
