#!/bin/bash
# usage: confirm_batch.sh <base> <tag> <prop>...   runs tools/confirm_seeded.py for the given properties, 5 at a time
base=$1; tag=$2; shift 2
printf "%s\n" "$@" | xargs -P 5 -I{} sh -c "/verif/tools/confirm_seeded.py {} $base $tag > $base/{}.confirm.json 2>&1"
for p in "$@"; do echo "$p confirmed=$(grep -c '"confirmed": true' $base/$p.confirm.json) exits=$(grep -A3 '"static_check"' $base/$p.confirm.json | grep '"exit"' | tr -d ' ,\n')"; done
