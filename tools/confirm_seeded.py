#!/venv/bin/python
"""usage: confirm_seeded.py <prop> [base=/tmp/wt] [tag]   (round 2: base /tmp/wt2, tag r2 -> seeded/<prop>-r2-<k>)   Confirms every mutant delivered in /tmp/wt/<prop>.out in the scratch worktree
/tmp/wt/<prop>: demo passes on the unchanged tree, fails with the patch, the unedited suite passes with the patch; then
records what the static check says. Confirmed mutants are stored as /verif/seeded/<prop>-<k>/{patch.diff,demo.py,meta.json}."""
import glob, json, os, re, shutil, subprocess, sys
sys.path.insert(0, '/verif')
prop = sys.argv[1]
base = sys.argv[2] if len(sys.argv) > 2 else '/tmp/wt'
tag = (sys.argv[3] + '-') if len(sys.argv) > 3 else ''
out = f'{base}/{prop}.out'
wt = f'{base}/{prop}'
env = dict(os.environ, PYTHONPATH=wt)
PY = '/venv/bin/python'


def sh(cmd, **kw):
    return subprocess.run(cmd, capture_output=True, text=True, **kw)


def clean():
    sh(['git', '-C', wt, 'checkout', '-q', '--', '.'])
    sh(['git', '-C', wt, 'clean', '-fdq'])


head = sh(['git', '-C', '/repo', 'rev-parse', 'HEAD']).stdout.strip()
clean()
sh(['git', '-C', wt, 'checkout', '-q', '--detach', head])
for pf in sorted(glob.glob(f'{out}/patch*.diff')):
    k = re.search(r'patch(\d+)\.diff', pf).group(1)
    demo = f'{out}/demo{k}.py'
    meta = {}
    try:
        meta = json.load(open(f'{out}/meta{k}.json'))
    except Exception:
        pass
    res = {'property': prop, 'mutant': k, 'base_commit': head}
    clean()
    r0 = sh([PY, demo], env=env, cwd=out, timeout=900)
    res['demo_unchanged_exit'] = r0.returncode
    a = sh(['git', '-C', wt, 'apply', pf])
    if a.returncode:
        res['error'] = 'patch does not apply: ' + a.stderr[:200]
        print(json.dumps(res)); continue
    r1 = sh([PY, demo], env=env, cwd=out, timeout=900)
    res['demo_mutant_exit'] = r1.returncode
    res['demo_mutant_tail'] = (r1.stdout + r1.stderr)[-400:]
    st = sh([PY, '-m', 'pytest', '-q', '-p', 'no:cacheprovider', '--timeout=900', '-x'], env=env, cwd=wt, timeout=1800)
    tail = st.stdout.strip().splitlines()[-1] if st.stdout.strip() else ''
    res['suite'] = tail
    os.environ['SCMO_REPO'] = wt
    from sa.run import check
    checks = {}
    try:
        code, ctx, lines = check(prop, 'quick', 0, write=False)
        checks[prop] = {'exit': code, 'lines': [l[:300] for l in lines[1:5]]}
    except Exception as e:
        checks[prop] = {'exit': 'n/a', 'error': str(e)[:200]}
    res['static_check'] = checks
    clean()
    ok = res['demo_unchanged_exit'] == 0 and res['demo_mutant_exit'] not in (0, None) and re.search(r'\b81 passed', tail) and 'failed' not in tail
    res['confirmed'] = bool(ok)
    print(json.dumps(res, indent=1))
    if ok:
        d = f'/verif/seeded/{prop}-{tag}{k}'
        os.makedirs(d, exist_ok=True)
        shutil.copy(pf, f'{d}/patch.diff')
        shutil.copy(demo, f'{d}/demo.py')
        m = {'property': prop, 'summary': meta.get('summary'), 'needs': meta.get('needs'), 'files': meta.get('files'),
             'origin': 'independent sub-agent given only the property text and a scratch worktree',
             'confirmed_by': 'tools/confirm_seeded.py', 'base_commit': head,
             'ran': {'demo_unchanged': f'exit {res["demo_unchanged_exit"]}', 'demo_with_patch': f'exit {res["demo_mutant_exit"]}: ' + res['demo_mutant_tail'].strip()[-200:],
                     'suite_with_patch': tail},
             'static_check_at_confirmation': checks}
        json.dump(m, open(f'{d}/meta.json', 'w'), indent=1)
