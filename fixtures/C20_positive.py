# Expected-positive examples for C20-R1 (appended to an in-memory copy of bamtagmultiome.py on every run).
def fixture_marker_inside_context(out_bam_path, header, molecules):
    with sorted_bam_file(out_bam_path, header=header) as out:
        for m in molecules:
            m.write_pysam(out)
        write_status(out_bam_path, 'Reached end. All ok!')


def fixture_marker_in_finally(out_bam_path, header, molecules):
    try:
        with sorted_bam_file(out_bam_path, header=header) as out:
            for m in molecules:
                m.write_pysam(out)
    finally:
        write_status(out_bam_path, 'Reached end. All ok!')


def fixture_swallowed_merge(out_bam_path, bams):
    try:
        merge_bams(bams, out_bam_path)
    except Exception as e:
        print(e)
    write_status(out_bam_path, 'Reached end. All ok!')
